(* C12 — Aspect-preserving viewBox placement fits or fills and honours alignment.
   The formulas of ivg.go are the single polymorphic definition Fit.aspect; its float32 instance
   (Fit.F32ops) is compared bit-for-bit with the implementation, and these theorems are about its
   instance over the reals (FitR.Rops).  meet_float_error / slice_float_error bound the float32 rounding error:
   every coordinate of the float32 result is within 48 * 2^-24 of the size of the result (+ 2^-149) of the
   coordinate the real instance gives, for viewBox and target sizes between 2^-30 and 2^30 (from the soft-float's
   rounding specification, SFReal.v; FErr.V is the real value of a float32 bit pattern, FErr.gf "finite bit pattern",
   Mag.mag x k is 2^-k <= |x| <= 2^k). *)
From Coq Require Import Reals Lra Lia ZArith.
From IVG Require Import SF NumCodec Fit FitR SFReal FErr Mag FitF.
Local Open Scope R_scope.

Theorem meet_spec : forall minx miny maxx maxy dx dy ax ay,
  minx < maxx -> miny < maxy -> 0 < dx -> 0 < dy -> 0 <= ax <= 1 -> 0 <= ay <= 1 ->
  let vw := maxx - minx in let vh := maxy - miny in
  let '(mnx, mny, mxx, mxy) := aspect_meet Rops minx miny maxx maxy dx dy ax ay in
  let w := mxx - mnx in let h := mxy - mny in
  w * vh = h * vw /\
  0 <= mnx /\ mxx <= dx /\ 0 <= mny /\ mxy <= dy /\
  (w = dx \/ h = dy) /\
  mnx = (dx - w) * ax /\ mny = (dy - h) * ay.
Proof. exact FitR.meet_spec. Qed.
Print Assumptions meet_spec.

Theorem slice_spec : forall minx miny maxx maxy dx dy ax ay,
  minx < maxx -> miny < maxy -> 0 < dx -> 0 < dy -> 0 <= ax <= 1 -> 0 <= ay <= 1 ->
  let vw := maxx - minx in let vh := maxy - miny in
  let '(mnx, mny, mxx, mxy) := aspect_slice Rops minx miny maxx maxy dx dy ax ay in
  let w := mxx - mnx in let h := mxy - mny in
  w * vh = h * vw /\
  mnx <= 0 /\ dx <= mxx /\ mny <= 0 /\ dy <= mxy /\
  (w = dx \/ h = dy) /\
  mnx = (dx - w) * ax /\ mny = (dy - h) * ay.
Proof. exact FitR.slice_spec. Qed.
Print Assumptions slice_spec.

Theorem size_spec : forall minx miny maxx maxy, vb_size Rops minx miny maxx maxy = (maxx - minx, maxy - miny).
Proof. exact FitR.size_spec. Qed.
Print Assumptions size_spec.

Theorem meet_float_error : forall minx miny maxx maxy dx dy ax ay : f32,
  gf minx -> gf miny -> gf maxx -> gf maxy -> gf dx -> gf dy -> gf ax -> gf ay ->
  mag (V maxx - V minx) 30 -> mag (V maxy - V miny) 30 -> mag (V dx) 30 -> mag (V dy) 30 ->
  0 < V maxx - V minx -> 0 < V maxy - V miny -> 0 < V dx -> 0 < V dy -> 0 <= V ax <= 1 -> 0 <= V ay <= 1 ->
  close4 (aspect_meet F32ops minx miny maxx maxy dx dy ax ay)
         (aspect_meet Rops (V minx) (V miny) (V maxx) (V maxy) (V dx) (V dy) (V ax) (V ay)) (V dx) (V dy).
Proof. intros. apply FitF.meet_float_error; assumption. Qed.
Print Assumptions meet_float_error.

Theorem slice_float_error : forall minx miny maxx maxy dx dy ax ay : f32,
  gf minx -> gf miny -> gf maxx -> gf maxy -> gf dx -> gf dy -> gf ax -> gf ay ->
  mag (V maxx - V minx) 30 -> mag (V maxy - V miny) 30 -> mag (V dx) 30 -> mag (V dy) 30 ->
  0 < V maxx - V minx -> 0 < V maxy - V miny -> 0 < V dx -> 0 < V dy -> 0 <= V ax <= 1 -> 0 <= V ay <= 1 ->
  let r := aspect_slice Rops (V minx) (V miny) (V maxx) (V maxy) (V dx) (V dy) (V ax) (V ay) in
  let '(MNX, MNY, MXX, MXY) := r in
  close4 (aspect_slice F32ops minx miny maxx maxy dx dy ax ay) r (MXX - MNX) (MXY - MNY).
Proof. intros. apply FitF.slice_float_error; assumption. Qed.
Print Assumptions slice_float_error.

(* what close4 says, spelled out *)
Example close4_def : forall a b c d A B C D Mx My,
  close4 (a, b, c, d) (A, B, C, D) Mx My <->
  (gf a /\ gf b /\ gf c /\ gf d /\
   Rabs (V a - A) <= 48 * u32 * Mx + eta2 /\ Rabs (V c - C) <= 48 * u32 * Mx + eta2 /\
   Rabs (V b - B) <= 48 * u32 * My + eta2 /\ Rabs (V d - D) <= 48 * u32 * My + eta2).
Proof. intros. reflexivity. Qed.

(* non-vacuity: the hypotheses are satisfiable (a 10x20 viewBox, a 100x50 target, centred) *)
Example ex_hyps : (0 < 10 /\ 0 < 20 /\ 0 < 100 /\ 0 < 50 /\ 0 <= 1/2 <= 1)%R.
Proof. repeat split; lra. Qed.

(* non-vacuity of the float hypotheses: the default viewBox side (-32 .. 32) is a pair of finite bit patterns whose
   difference has magnitude class 30 *)
Example ex_float_hyps : gf 3254779904%Z /\ gf 1107296256%Z /\ mag (V 1107296256%Z - V 3254779904%Z) 30 /\
  0 < V 1107296256%Z - V 3254779904%Z.
Proof.
  assert (D1 : decode F32 1107296256 = FFin false 8388608 (-18)) by (vm_compute; reflexivity).
  assert (D2 : decode F32 3254779904 = FFin true 8388608 (-18)) by (vm_compute; reflexivity).
  assert (V1 : V 1107296256%Z = 32) by (unfold V; rewrite (B2R_fin _ _ _ _ _ D1); unfold b2; cbn; lra).
  assert (V2 : V 3254779904%Z = -32) by (unfold V; rewrite (B2R_fin _ _ _ _ _ D2); unfold b2; cbn; lra).
  split; [split; [unfold wf32; lia|exists true, 8388608%Z, (-18)%Z; exact D2]|].
  split; [split; [unfold wf32; lia|exists false, 8388608%Z, (-18)%Z; exact D1]|].
  rewrite V1, V2. split; [|lra]. unfold mag. replace (32 - -32) with 64 by lra. rewrite Rabs_pos_eq by lra.
  pose proof (pow2_ge1 30). pose proof (pow2_pos 30). split.
  - apply Rle_trans with 1; [|lra]. rewrite <- Rinv_1. apply Rinv_le_contravar; lra.
  - replace 64 with (2 ^ 6) by (cbn; lra). apply pow2_mono. lia.
Qed.

(* ---- tie to the source: ViewBox.Size / AspectMeet / AspectSlice of ivg.go, translated from /repo's working
   tree by harness/gosrc.go on every run (gen/GoSrc.v), are the float32 instance of the definition the
   theorems above are about. ---- *)
From IVG Require Import GoSem GoSrc GenEqGeom.

Theorem code_Size : forall v, go_ivg_ViewBox_Size v = vb_size F32ops (vminx v) (vminy v) (vmaxx v) (vmaxy v).
Proof. exact GenEqGeom.go_ViewBox_Size_eq. Qed.
Print Assumptions code_Size.

Theorem code_AspectMeet : forall v dx dy ax ay, go_ivg_ViewBox_AspectMeet v dx dy ax ay =
  aspect_meet F32ops (vminx v) (vminy v) (vmaxx v) (vmaxy v) dx dy ax ay.
Proof. exact GenEqGeom.go_AspectMeet_eq. Qed.
Print Assumptions code_AspectMeet.

Theorem code_AspectSlice : forall v dx dy ax ay, go_ivg_ViewBox_AspectSlice v dx dy ax ay =
  aspect_slice F32ops (vminx v) (vminy v) (vmaxx v) (vmaxy v) dx dy ax ay.
Proof. exact GenEqGeom.go_AspectSlice_eq. Qed.
Print Assumptions code_AspectSlice.

(* C13 — Metadata: defaults, suggested palette, viewBox validation, chunk framing.
   Statements only; proofs in proofs/DecProofs.v. *)
From Coq Require Import ZArith Bool List.
From IVG Require Import SF NumCodec Color Calls Decoder DecProofs.
Import ListNotations.
Local Open Scope Z_scope.

(* the Reset delivered carries the viewBox and (sanitised) palette the metadata section yields *)
Theorem reset_args : forall os b its m rest m',
  dec_metadata b = (its, ChunksOk m rest) -> apply_opts os m = Some m' ->
  exists tl, fst (decode_calls os b) = CReset (m_vb m') (sanitize_palette (m_pal m')) :: tl.
Proof. exact DecProofs.reset_palette. Qed.
Print Assumptions reset_args.

(* absent chunks: -32,-32,32,32 and 64 opaque blacks *)
Theorem metadata_defaults : forall rest,
  dec_metadata (magic ++ 0 :: rest) = ([ILine magic PMagic; ILine [0] (PNChunks 0)], ChunksOk default_meta rest).
Proof. exact DecProofs.metadata_defaults. Qed.
Print Assumptions metadata_defaults.

(* N+1 explicit palette entries: entries outside the explicit range keep their previous (default: opaque black)
   value, and every explicit entry is a valid premultiplied colour (indirect / non-premultiplied -> opaque black) *)
Theorem palette_entries : forall k i form pal b its pal' rest,
  (i + k <= length pal)%nat ->
  read_palette k i form pal b = (its, Some (pal', rest)) ->
  length pal' = length pal /\
  (forall j, (j < i \/ i + k <= j)%nat -> nth j pal' opaque_black = nth j pal opaque_black) /\
  (forall j, (i <= j < i + k)%nat -> valid_premul (nth j pal' opaque_black) = true).
Proof. exact DecProofs.read_palette_spec. Qed.
Print Assumptions palette_entries.

(* inverted, infinite or NaN viewBoxes are rejected *)
Theorem viewbox_accept : forall minmid m b its m' b', dec_chunk minmid m b = (its, ChunkOk m' b' 0) ->
  viewbox_invalid (m_vb m') = false /\ m_pal m' = m_pal m.
Proof. exact DecProofs.viewbox_accept. Qed.
Print Assumptions viewbox_accept.

(* a chunk's declared length must equal the bytes its content consumed: bytes of the lines = input consumed *)
Theorem chunk_framing : forall minmid m b its r, dec_chunk minmid m b = (its, r) ->
  ncalls its = 0%nat /\ pref b its (chunk_rest r) /\
  (forall m' b' mid, r = ChunkOk m' b' mid -> (length b' < length b)%nat).
Proof. exact DecProofs.dec_chunk_ok. Qed.
Print Assumptions chunk_framing.

(* metadata-only decoding returns the same viewBox, validates the same things, and delivers nothing *)
Theorem viewbox_only_agrees : forall b,
  match dec_metadata b with
  | (_, ChunksOk m _) => decode_viewbox b = (m_vb m, Done) /\
                         exists vb pal tl, fst (decode_calls [] b) = CReset vb pal :: tl /\ vb = m_vb m
  | (_, ChunksErr o) => snd (decode_viewbox b) = o /\ decode_calls [] b = ([], o)
  end.
Proof. exact DecProofs.viewbox_only_agrees. Qed.
Print Assumptions viewbox_only_agrees.

Example ex_two_viewboxes_rejected :
  snd (decode_calls [] [137; 73; 86; 71; 4; 10; 0; 64; 64; 64; 64; 10; 0; 64; 64; 64; 64]) = Fail EInvalidMetadataIdentifier.
Proof. vm_compute. reflexivity. Qed.

(* ---- tie to the source: decode.isNaNOrInfinity (the building block of the viewBox validity test), translated from
   /repo's working tree by harness/gosrc.go on every run (gen/GoSrc.v), is the model's test, and is "not finite" ---- *)
From IVG Require Import NumBase GoSem GoSrc GenEqNum.

Theorem code_isNaNOrInfinity : forall f, wf_f32 f -> go_decode_isNaNOrInfinity f = Decoder.is_nan_or_inf f.
Proof. exact GenEqNum.go_isNaNOrInfinity_model. Qed.
Print Assumptions code_isNaNOrInfinity.

Theorem code_isNaNOrInfinity_meaning : forall f, wf_f32 f -> go_decode_isNaNOrInfinity f = negb (SF.is_finite SF.F32 f).
Proof. exact GenEqNum.go_isNaNOrInfinity_eq. Qed.
Print Assumptions code_isNaNOrInfinity_meaning.

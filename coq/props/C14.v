(* C14 — Palette options override exactly what they say, and are sanitised.
   Statements only; proofs in proofs/DecProofs.v.  The model's values are immutable, so "neither the
   encoded bytes nor the caller's palette array are modified" is tied to the code by the write-footprint
   table (C18) and by the before/after comparison in the harness. *)
From Coq Require Import ZArith Bool List.
From IVG Require Import SF NumCodec Color Calls Decoder DecProofs.
Import ListNotations.
Local Open Scope Z_scope.

(* options are applied in order on top of the suggested palette *)
Theorem opts_fold : forall os m, apply_opts os m = fold_left apply_one os (Some m).
Proof. exact DecProofs.opts_fold. Qed.
Print Assumptions opts_fold.

(* a single-index override changes that entry and only that entry *)
Theorem override_one : forall (l : list rgba) i j x d, (i < length l)%nat ->
  nth j (set_nth l i x) d = if Nat.eqb i j then x else nth j l d.
Proof.
  intros l i j x d L. destruct (Nat.eqb i j) eqn:E.
  - apply Nat.eqb_eq in E. subst. apply set_nth_same. exact L.
  - apply Nat.eqb_neq in E. apply set_nth_other; assumption.
Qed.
Print Assumptions override_one.

(* the palette that reaches Reset (and so seeds palette-indexed colours and the initial CREG) *)
Theorem reset_palette : forall os b its m rest m',
  dec_metadata b = (its, ChunksOk m rest) -> apply_opts os m = Some m' ->
  exists tl, fst (decode_calls os b) = CReset (m_vb m') (sanitize_palette (m_pal m')) :: tl.
Proof. exact DecProofs.reset_palette. Qed.
Print Assumptions reset_palette.

(* entries that are not valid premultiplied colours act as opaque black ... *)
Theorem sanitised : forall p i, (i < length p)%nat ->
  nth i (sanitize_palette p) opaque_black = let c := nth i p opaque_black in if valid_premul c then c else opaque_black.
Proof. exact DecProofs.sanitize_nth. Qed.
Print Assumptions sanitised.

Theorem sanitised_all_valid : forall p, Forall (fun c => valid_premul c = true) (sanitize_palette p).
Proof. exact DecProofs.sanitize_valid. Qed.
Print Assumptions sanitised_all_valid.

(* ... and are never reinterpreted as gradients *)
Theorem premul_not_gradient : forall c, 0 <= cb c -> valid_premul c = true -> valid_gradient c = false.
Proof. exact DecProofs.premul_not_gradient. Qed.
Print Assumptions premul_not_gradient.

Example ex_gradient_looking_entry :
  fst (decode_calls [OColorAt 0 (mkRGBA 2 74 138 0)] [137; 73; 86; 71; 0]) = [CReset default_viewbox default_palette].
Proof. vm_compute. reflexivity. Qed.

(* C15 — Gradient paint: premultiplied interpolation, spread modes, geometry.
   Statements only; proofs in proofs/ClampR.v.  Spread.Clamp is the single polymorphic definition
   Gradient.clamp_gen: its float64 instance is compared bit-for-bit with render/gradient.go (together
   with Gradient.At on thousands of pixels), and these theorems are about its instance over the reals.
   PARTIAL: the piece-wise linear interpolation itself (Gradient.At locating the range of an offset)
   is modelled and compared with the implementation, and its premultiplication / end-point facts are
   proved for the interpolation formula (the interp theorems below), but "At returns the interpolation at the clamped
   offset" is not yet a theorem about the list-search in grad_at. *)
From Coq Require Import Reals ZArith Bool.
From IVG Require Import Gradient ClampR.
Local Open Scope R_scope.

(* reflect is a continuous triangle wave of period 2, for every real offset *)
Theorem clamp_reflect : forall x, clampR 2 x = tri x.
Proof. exact ClampR.clamp_reflect. Qed.
Print Assumptions clamp_reflect.

Theorem tri_value : forall y, 0 <= y ->
  tri y = if Z.odd (Int_part y) then 1 - frac_part y else frac_part y.
Proof. exact ClampR.tri_nonneg. Qed.
Print Assumptions tri_value.

Theorem tri_even : forall x, tri (- x) = tri x.
Proof. exact ClampR.tri_even. Qed.
Print Assumptions tri_even.

Theorem clamp_pad : forall x, clampR 1 x = if Rle_dec 0 x then (if Rle_dec x 1 then x else 1) else 0.
Proof. exact ClampR.clamp_pad. Qed.
Print Assumptions clamp_pad.

Theorem clamp_repeat : forall x, clampR 3 x = if Rle_dec 0 x then (if Rle_dec x 1 then x else frac_part x) else frac_part x.
Proof. exact ClampR.clamp_repeat. Qed.
Print Assumptions clamp_repeat.

Theorem clamp_none : forall x, clampR 0 x = if Rle_dec 0 x then (if Rle_dec x 1 then x else -1) else -1.
Proof. exact ClampR.clamp_none. Qed.
Print Assumptions clamp_none.

Theorem clamp_range : forall sp x, (sp = 1 \/ sp = 2 \/ sp = 3)%Z -> 0 <= clampR sp x <= 1.
Proof. exact ClampR.clamp_range. Qed.
Print Assumptions clamp_range.

(* interpolation in premultiplied space stays premultiplied; truncation to 16 bits is monotone *)
Theorem interp_premul : forall t r0 a0 r1 a1, 0 <= t <= 1 -> r0 <= a0 -> r1 <= a1 ->
  (1 - t) * r0 + t * r1 <= (1 - t) * a0 + t * a1.
Proof. exact ClampR.interp_premul. Qed.
Print Assumptions interp_premul.

Theorem trunc_mono : forall x y, x <= y -> (Int_part x <= Int_part y)%Z.
Proof. exact ClampR.trunc_mono. Qed.
Print Assumptions trunc_mono.

Theorem interp_endpoints : forall c0 c1, (1 - 0) * c0 + 0 * c1 = c0 /\ (1 - 1) * c0 + 1 * c1 = c1.
Proof. exact ClampR.interp_endpoints. Qed.
Print Assumptions interp_endpoints.

(* the float64 instance at the odd integer where the repaired defect lived *)
Example ex_reflect3 : clamp 2 (SF.of_Z SF.F64 3) = SF.of_Z SF.F64 1.
Proof. vm_compute. reflexivity. Qed.

(* C15 — Gradient paint: premultiplied interpolation, spread modes, geometry.
   Statements only; proofs in proofs/ClampR.v.  Spread.Clamp is the single polymorphic definition
   Gradient.clamp_gen: its float64 instance is compared bit-for-bit with render/gradient.go (together
   with Gradient.At on thousands of pixels), and these theorems are about its instance over the reals.
   Gradient.At's core — the range search over the stops and the interpolation — is likewise one polymorphic
   definition (Gradient.at_core_gen; float64 instance compared on thousands of pixels); over the reals, for
   strictly increasing stop offsets: the result is the stop-to-stop interpolation in the range containing the
   offset (at_in_range), the first colour before the first stop, the last colour after the last stop, no
   colour for a negative offset (spread none), exactly the stop's colour at a stop's offset, and a
   premultiplied colour between premultiplied stops.  Gradient.At itself is at_core applied to Clamp of the
   affine image of the pixel centre (by definition, Gradient.grad_at).  Float rounding is not bounded. *)
From Coq Require Import Reals ZArith Bool List.
From IVG Require Import SF NumCodec Color Calls Render Gradient ClampR AtR.
Import ListNotations.
Local Open Scope R_scope.

(* reflect is a continuous triangle wave of period 2, for every real offset *)
Theorem clamp_reflect : forall x, clampR 2 x = tri x.
Proof. exact ClampR.clamp_reflect. Qed.
Print Assumptions clamp_reflect.

Theorem tri_value : forall y, 0 <= y ->
  tri y = if Z.odd (Int_part y) then 1 - frac_part y else frac_part y.
Proof. exact ClampR.tri_nonneg. Qed.
Print Assumptions tri_value.

Theorem tri_even : forall x, tri (- x) = tri x.
Proof. exact ClampR.tri_even. Qed.
Print Assumptions tri_even.

Theorem clamp_pad : forall x, clampR 1 x = if Rle_dec 0 x then (if Rle_dec x 1 then x else 1) else 0.
Proof. exact ClampR.clamp_pad. Qed.
Print Assumptions clamp_pad.

Theorem clamp_repeat : forall x, clampR 3 x = if Rle_dec 0 x then (if Rle_dec x 1 then x else frac_part x) else frac_part x.
Proof. exact ClampR.clamp_repeat. Qed.
Print Assumptions clamp_repeat.

Theorem clamp_none : forall x, clampR 0 x = if Rle_dec 0 x then (if Rle_dec x 1 then x else -1) else -1.
Proof. exact ClampR.clamp_none. Qed.
Print Assumptions clamp_none.

Theorem clamp_range : forall sp x, (sp = 1 \/ sp = 2 \/ sp = 3)%Z -> 0 <= clampR sp x <= 1.
Proof. exact ClampR.clamp_range. Qed.
Print Assumptions clamp_range.

(* interpolation in premultiplied space stays premultiplied; truncation to 16 bits is monotone *)
Theorem interp_premul : forall t r0 a0 r1 a1, 0 <= t <= 1 -> r0 <= a0 -> r1 <= a1 ->
  (1 - t) * r0 + t * r1 <= (1 - t) * a0 + t * a1.
Proof. exact ClampR.interp_premul. Qed.
Print Assumptions interp_premul.

Theorem trunc_mono : forall x y, x <= y -> (Int_part x <= Int_part y)%Z.
Proof. exact ClampR.trunc_mono. Qed.
Print Assumptions trunc_mono.

Theorem interp_endpoints : forall c0 c1, (1 - 0) * c0 + 0 * c1 = c0 /\ (1 - 1) * c0 + 1 * c1 = c1.
Proof. exact ClampR.interp_endpoints. Qed.
Print Assumptions interp_endpoints.

(* ---- Gradient.At over the reals ---- *)
Theorem at_in_range : forall pre oa ca ob cb post t,
  incr (pre ++ (oa, ca) :: (ob, cb) :: post) -> 0 <= t -> (match pre with [] => oa <= t | _ => oa < t end) -> t <= ob ->
  at_core_gen Rat (pre ++ (oa, ca) :: (ob, cb) :: post) t = interpR oa ob t ca cb.
Proof. exact AtR.at_in_range. Qed.
Print Assumptions at_in_range.

Theorem at_before_first : forall o0 c0 rest t, 0 <= t -> t < o0 -> at_core_gen Rat ((o0, c0) :: rest) t = c64_of c0.
Proof. exact AtR.at_before_first. Qed.
Print Assumptions at_before_first.

Theorem at_after_last : forall o0 c0 rest t, 0 <= t -> Forall (fun s => fst s < t) ((o0, c0) :: rest) ->
  at_core_gen Rat ((o0, c0) :: rest) t = c64_of (snd (List.last ((o0, c0) :: rest) (o0, c0))).
Proof. exact AtR.at_after_last. Qed.
Print Assumptions at_after_last.

Theorem at_negative : forall stops t, t < 0 -> at_core_gen Rat stops t = c64_zero.
Proof. exact AtR.at_negative. Qed.
Print Assumptions at_negative.

Theorem interp_at_stops : forall o0 o1 c0 c1, o0 < o1 -> chan16 c0 -> chan16 c1 ->
  interpR o0 o1 o0 c0 c1 = c64_of c0 /\ interpR o0 o1 o1 c0 c1 = c64_of c1.
Proof. exact AtR.interp_at_stops. Qed.
Print Assumptions interp_at_stops.

Theorem interp_premultiplied : forall o0 o1 t c0 c1, o0 < o1 -> o0 <= t <= o1 -> chan16 c0 -> chan16 c1 ->
  valid_premul c0 = true -> valid_premul c1 = true ->
  let c := interpR o0 o1 t c0 c1 in (c_r c <= c_a c /\ c_g c <= c_a c /\ c_b c <= c_a c)%Z.
Proof. exact AtR.interp_premultiplied. Qed.
Print Assumptions interp_premultiplied.

(* the float64 instance at the odd integer where the repaired defect lived *)
Example ex_reflect3 : clamp 2 (SF.of_Z SF.F64 3) = SF.of_Z SF.F64 1.
Proof. vm_compute. reflexivity. Qed.

(* ---- tie to the source: Spread.Clamp of render/gradient.go, translated from /repo's working tree by
   harness/gosrc.go on every run (gen/GoSrc.v), is the float64 instance of clamp_gen. ---- *)
From IVG Require Import GoSem GoSrc GenEqGeom.

Theorem code_Clamp : forall s x, go_render_Spread_Clamp s x = Gradient.clamp s x.
Proof. exact GenEqGeom.go_Clamp_eq. Qed.
Print Assumptions code_Clamp.

(* C16 — Pixels are invariant under re-expression of the same picture.  PARTIAL.
   What is proved is at the level of the calls that reach the rasteriser:
   (a) offset_invariance: moving the target rectangle changes nothing but the rectangle of each Draw
       (whose source point stays (0,0)) — for every program, including arcs and gradients;
   (c) indirect colours are resolved when stored (renderer_refines_vm, C04), so a graphic using palette
       indices, registers and blends hands the rasteriser the same paints as its resolved form;
   (d) drawop_first_only: in the model of the vec wrapper the configured operator is used by the first
       Draw and Over afterwards.
   What is not proved: that equal calls give equal pixels, that pixels outside the rectangle are untouched
   (facts about golang.org/x/image/vector, which is not modelled), and (b) scale invariance, which the
   check exercises bit-exactly on the implementation (PIXEQ runs) but which is not a theorem. *)
From Coq Require Import ZArith Bool List.
From IVG Require Import SF NumCodec Color Calls Render Arc RenderProofs VMSpec VMProofs Vec.
Import ListNotations.
Local Open Scope Z_scope.

Theorem offset_invariance : forall l dx dy s,
  rrun32 (shifted dx dy s) l = shifted dx dy (rrun32 s l).
Proof. exact RenderProofs.offset_invariance. Qed.
Print Assumptions offset_invariance.

(* the log of the moved renderer is the original log with only the Draw rectangles moved *)
Theorem offset_log : forall l dx dy s,
  r_log (rrun32 (shifted dx dy s) l) = map (shift_call dx dy) (r_log (rrun32 s l)).
Proof. intros. rewrite RenderProofs.offset_invariance. reflexivity. Qed.
Print Assumptions offset_log.

Theorem indirect_colours_resolved_at_store : forall s c, regs_ok s -> is_reg_op c = true ->
  vm_eq (vabs (rstep32 s c)) (vm_step (vabs s) c) /\ regs_ok (rstep32 s c) /\ r_log (rstep32 s c) = r_log s.
Proof. exact VMProofs.renderer_refines_vm. Qed.
Print Assumptions indirect_colours_resolved_at_store.

Theorem drawop_first_only : forall op n, vec_draws op (Datatypes.S n) = op :: repeat OpOver n.
Proof.
  intros op n. cbn. f_equal. induction n as [|n IH]; [reflexivity|]. cbn. f_equal. exact IH.
Qed.
Print Assumptions drawop_first_only.

Example ex_shift_call : shift_call 3 5 (RDraw 0 0 8 8 (PFlat (mkRGBA 0 0 0 255))) = RDraw 3 5 11 13 (PFlat (mkRGBA 0 0 0 255)).
Proof. reflexivity. Qed.

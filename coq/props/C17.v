(* C17 — Encoders and Renderers carry no state across Reset; output is deterministic.
   Statements only; proofs in proofs/EncProofs.v and proofs/RenderProofs.v.  Determinism ("encoding the
   same calls twice gives identical output") is functionality of the model; the tie to the code is the
   correspondence run, which executes reused and fresh objects side by side. *)
From Coq Require Import ZArith Bool List.
From IVG Require Import SF NumCodec Color Calls Encoder EncProofs Render Arc RenderProofs.
Import ListNotations.
Local Open Scope Z_scope.

(* whatever happened to an Encoder before (errors, open path, pending run, hi-res flag ...), after Reset
   it is the Encoder obtained from the zero value by the same Reset: all later observations agree *)
Theorem encoder_reset_fresh : forall (A B : list eact) vb pal (e : enc),
  let r := ACall (CReset vb pal) in
  enc_run (fst (enc_run e A)) (r :: B) = enc_run enc_zero (r :: B).
Proof. exact EncProofs.encoder_reset_fresh. Qed.
Print Assumptions encoder_reset_fresh.

Theorem bytes_twice : forall e,
  snd (enc_bytes (fst (enc_bytes e))) = snd (enc_bytes e) /\
  fst (enc_bytes (fst (enc_bytes e))) = fst (enc_bytes e).
Proof. exact EncProofs.bytes_idempotent. Qed.
Print Assumptions bytes_twice.

(* the rasteriser log is write-only: what a Renderer does never depends on what it has emitted so far *)
Theorem renderer_log_is_write_only : forall l s L,
  rrun32 (with_log s L) l = with_log (rrun32 (with_log s []) l) (L ++ r_log (rrun32 (with_log s []) l)).
Proof. exact RenderProofs.framed_rrun. Qed.
Print Assumptions renderer_log_is_write_only.

(* two Renderers over the same rectangle, in arbitrary states (registers, selectors, LOD, smooth-curve state,
   disabled flag, paint, rasteriser pen left by any earlier history), emit the same rasteriser calls for
   Reset followed by any well-formed program *)
Theorem renderer_reset_fresh : forall s s' vb pal B,
  r_x0 s = r_x0 s' -> r_y0 s = r_y0 s' -> r_w s = r_w s' -> r_h s = r_h s' ->
  wf_prog false B = true ->
  exists d, r_log (rrun32 s (CReset vb pal :: B)) = r_log s ++ d /\
            r_log (rrun32 s' (CReset vb pal :: B)) = r_log s' ++ d.
Proof. exact RenderProofs.renderer_reset_fresh. Qed.
Print Assumptions renderer_reset_fresh.

(* re-targeting a used Renderer (SetRasterizer with another rectangle, same or different size / origin) and
   then decoding gives what a fresh Renderer on that rectangle gives *)
Theorem renderer_retarget_fresh : forall s x0 y0 w h vb pal B,
  wf_prog false B = true ->
  exists d, r_log (rrun32 (set_rasterizer N32 s x0 y0 w h) (CReset vb pal :: B)) = r_log s ++ d /\
            r_log (rrun32 (rinit N32 x0 y0 w h) (CReset vb pal :: B)) = d.
Proof. exact RenderProofs.renderer_retarget_fresh. Qed.
Print Assumptions renderer_retarget_fresh.

Example ex_wf : wf_prog false [CSetCSel 3; CStartPath 0 0 0; CDraw opL [0; 0]; CArc true 0 0 0 false true 0 0; CEndPath; CSetLOD 0 0] = true.
Proof. reflexivity. Qed.

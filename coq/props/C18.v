(* C18 — independent decodes, renders and encodes are safe to run concurrently (partial).
   Proved: (1) over the write-footprint table regenerated from /repo on every run, no function of the
   packages assigns (or aliases into mutable use) a package-level variable, or stores through an input
   byte slice / caller-supplied palette parameter; (2) for machines whose steps read a shared
   environment and write only their own state, every schedule gives each machine the result of
   running alone.  Not proved (and not provable here): the Go memory model and the completeness of the
   footprint analysis; the race-detector run in the check covers executions, not all interleavings. *)
From Coq Require Import String List Bool Arith.
From IVG Require Import Footprint Sched SchedProofs.
Import ListNotations.

Definition no_shared_write (e : string * string * list string * bool) : bool :=
  match e with
  | (_, _, globals, param_store) => (match globals with [] => true | _ => false end) && negb param_store
  end.

Theorem no_shared_writes :
  forallb no_shared_write footprint = true /\ banned_imports = [].
Proof. split; vm_compute; reflexivity. Qed.
Print Assumptions no_shared_writes.

Theorem interleaving_independent :
  forall (Env St : Type) (step : Env -> St -> option St) env (sched : list nat) (ms : list St) j s,
  nth_error ms j = Some s ->
  nth_error (run_sched step env ms sched) j = Some (run_alone step env s (count_occ Nat.eq_dec sched j)).
Proof. intros Env St step. exact (SchedProofs.interleaving_independent step). Qed.
Print Assumptions interleaving_independent.

Theorem schedule_preserves_machines :
  forall (Env St : Type) (step : Env -> St -> option St) env sched (ms : list St),
  length (run_sched step env ms sched) = length ms.
Proof. intros Env St step. exact (SchedProofs.schedule_preserves_machines step). Qed.
Print Assumptions schedule_preserves_machines.

(* non-vacuity: the table is not empty, and a concrete schedule *)
Example footprint_nonempty : (100 <? length footprint) = true.
Proof. vm_compute. reflexivity. Qed.
Example ex_sched :
  run_sched (fun (env : nat) (s : nat) => if s <? env then Some (S s) else None) 3 [0; 0; 1] [0; 1; 0; 2; 1; 0; 0]
  = [3; 2; 2].
Proof. vm_compute. reflexivity. Qed.

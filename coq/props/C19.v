(* C19 — Generator gradient helpers realise the requested geometry and registers.
   Statements only; proofs in proofs/GradGeomR.v.  The matrix derivations are single polymorphic
   definitions (Generator.*_matrix_gen): their float32 instance is compared bit-for-bit with
   generate.go; the geometry theorems are about their instance over the reals.  The register layout is
   proved on the specification's machine (spec/VMSpec.v); that the Renderer refines that machine and
   paints what it prescribes is C04, so the stops, spread and shape given are the ones rendered. *)
From Coq Require Import Reals ZArith Bool List.
From IVG Require Import SF NumCodec Color Calls Generator VMSpec GradGeomR.
Import ListNotations.

Theorem linear_geometry : forall x1 y1 x2 y2 : R, ((x2 - x1) * (x2 - x1) + (y2 - y1) * (y2 - y1) <> 0)%R ->
  let m := linear_matrix_gen GR x1 y1 x2 y2 in
  fst (apply m x1 y1) = 0%R /\ fst (apply m x2 y2) = 1%R /\
  forall x y t : R, fst (apply m (x - t * (y2 - y1))%R (y + t * (x2 - x1))%R) = fst (apply m x y).
Proof. exact GradGeomR.linear_geometry. Qed.
Print Assumptions linear_geometry.

Theorem circular_geometry : forall cx cy rx ry : R, (0 < rx * rx + ry * ry)%R ->
  let m := circular_matrix_gen GR cx cy rx ry in
  apply m cx cy = (0%R, 0%R) /\
  let '(gx, gy) := apply m (cx + rx)%R (cy + ry)%R in (gx * gx + gy * gy = 1)%R.
Proof. exact GradGeomR.circular_geometry. Qed.
Print Assumptions circular_geometry.

Theorem elliptical_geometry : forall cx cy rx ry sx sy : R, (rx * sy - sx * ry <> 0)%R ->
  let m := elliptical_matrix_gen GR cx cy rx ry sx sy in
  apply m cx cy = (0%R, 0%R) /\ apply m (cx + rx)%R (cy + ry)%R = (1%R, 0%R) /\ apply m (cx + sx)%R (cy + sy)%R = (0%R, 1%R).
Proof. exact GradGeomR.elliptical_geometry. Qed.
Print Assumptions elliptical_geometry.

Local Open Scope Z_scope.

(* more stops than fit beside the matrix: rejected, nothing written (the result carries no call) *)
Theorem too_many_stops : forall csel nsel sh sp stops tr, (58 < length stops)%nat ->
  set_gradient csel nsel sh sp stops tr = inl GTooManyStops.
Proof. exact GradGeomR.too_many_stops. Qed.
Print Assumptions too_many_stops.

(* a colour selector inside the stop range (modulo 64): rejected, nothing written *)
Theorem csel_in_stop_range : forall csel nsel sh sp stops tr, (length stops <= 58)%nat -> 0 <= csel < 64 ->
  (exists i, 0 <= i < Z.of_nat (length stops) /\ (10 + i) mod 64 = csel) ->
  set_gradient csel nsel sh sp stops tr = inl GCSelUsed.
Proof. exact GradGeomR.csel_in_stop_range. Qed.
Print Assumptions csel_in_stop_range.

(* otherwise: the written registers, on the specification's machine *)
Theorem gradient_layout : forall m sh sp stops (tr : list f32),
  let csel := v_csel m in let nsel := v_nsel m in
  0 <= csel < 64 -> 0 <= nsel < 64 -> (length stops <= 58)%nat -> length tr = 6%nat ->
  (forall i, 0 <= i < Z.of_nat (length stops) -> (10 + i) mod 64 <> csel) ->
  exists calls, set_gradient csel nsel sh sp stops tr = inr calls /\
  let m' := vm_run m calls in
  let n := Z.of_nat (length stops) in
  v_csel m' = csel /\ v_nsel m' = nsel /\
  v_creg m' csel = encode_gradient 10 10 sh sp n /\
  (forall j, (j < length stops)%nat ->
     v_creg m' (10 + Z.of_nat j) = gs_color (nth j stops (mkGS 0 (mkRGBA 0 0 0 0))) /\
     v_nreg m' (10 + Z.of_nat j) = gs_offset (nth j stops (mkGS 0 (mkRGBA 0 0 0 0)))) /\
  (forall k, (k < 6)%nat -> v_nreg m' (4 + Z.of_nat k) = nth k tr 0).
Proof. exact GradGeomR.gradient_layout. Qed.
Print Assumptions gradient_layout.

Example ex_wraps : set_gradient 9 0 0 1 (repeat (mkGS 0 (mkRGBA 0 0 0 255)) 58) [0; 0; 0; 0; 0; 0] <> inl GCSelUsed
  /\ set_gradient 3 0 0 1 (repeat (mkGS 0 (mkRGBA 0 0 0 255)) 58) [0; 0; 0; 0; 0; 0] = inl GCSelUsed.
Proof. vm_compute. split; [discriminate|reflexivity]. Qed.

(* C20 — SVG path-data front ends emit the path they were given, transformed.
   Proved:
   * generate.SetPathData (model PathData.set_path_data, bit-exact against the Go code on ~16k strings per
     run): for EVERY structured path in the dialect — commands with a first operand group and repeated
     groups, numbers as decimal literals each followed by any run of spaces/commas or by nothing when the
     next byte ends the number by itself, z/Z commands, final z — the calls made on the printed string are
     exactly: StartPath(adj, first move, full transform), the first move's repeated groups as lines, every
     later command's groups in order (M/m demoted to L/l when repeated), later moves as close-and-move,
     arcs with rotation/360 and flags tested against 0, and one EndPath; no error.
   * over the reals, for the same polymorphic terms: Concat is composition of the transforms in argument
     order (any number of arguments), Translate/Scale are what they say, normalize gives absolute operand
     pairs the full scale-and-translate transform and relative ones the scale only, arc radii the scale, arc
     rotation and flags nothing, H/V their one coordinate.
   * the converter: one colour register per distinct opacity (blend of transparent 0x7f with palette colour
     0x80 by trunc(255 o)), earlier registers never disturbed; every circle is a move to its left-most point
     and two relative half-turn arcs (2r, -2r); ParsePath = register call ++ path calls ++ circles ++ EndPath.
   * mdicons.ParsePathData (model PathData.md_parse_path_data): for EVERY structured converter path — starts
     with M, verbs MmLlHhVvCcSsQqTtZz, optional spaces before verbs and numbers, numbers separated by spaces
     or merely by the next sign / letter, repeated operand groups after non-move verbs, optional trailing
     z — the calls are exactly: StartPath(adj) for the first M, close-and-move for later moves, one call per
     operand group with the size/offset/outSize normalisation, nothing for z/Z; no error.
   Modelling note: decimal-to-float conversion is the model's exact-rational rounding (validated against
   strconv / Fscanf by the correspondence check on every generated literal). *)
From Coq Require Import Reals ZArith Bool List.
From IVG Require Import SF NumCodec Color Calls Generator PathData GradGeomR PathR PathParse MdProofs MdParse.
Import ListNotations.

Theorem set_path_data_correct : forall tr adj cs, path_ok cs = true ->
  set_path_data tr (print_path cs) adj = (path_calls tr adj cs, PDOk).
Proof. exact PathParse.set_path_data_correct. Qed.
Print Assumptions set_path_data_correct.

Theorem md_parse_path_data_correct : forall adj size ox oy outsize cs tsp, mpath_ok cs tsp = true ->
  md_parse_path_data (print_mpath cs tsp ++ [122]%Z) adj size ox oy outsize = (mpath_calls adj size ox oy outsize cs, true).
Proof. exact MdParse.md_parse_path_data_correct. Qed.
Print Assumptions md_parse_path_data_correct.

(* the same without the optional final z (ParsePathData strips one trailing z and runs this loop) *)
Theorem md_loop_correct : forall adj size ox oy outsize cs tsp, mpath_ok cs tsp = true ->
  let d := print_mpath cs tsp in
  md_loop (S (length d)) adj size ox oy outsize false 0 false (repeat 0%Z 6) d = (mpath_calls adj size ox oy outsize cs, true).
Proof. exact MdParse.md_loop_correct. Qed.
Print Assumptions md_loop_correct.

Theorem concat_is_composition : forall (l : list (list R)) (x y : R),
  mul_aff3_gen GR x y (concat_gen GR l) = fold_left applyR l (x, y).
Proof. exact PathR.concat_is_composition. Qed.
Print Assumptions concat_is_composition.

Theorem norm_pairs2 : forall sx sy tx ty verb a0 a1,
  norm_args_gen GR (Some [sx; 0; tx; 0; sy; ty]%R) 2 verb [a0; a1] =
  let '(x, y) := trT sx sy tx ty verb a0 a1 in [x; y].
Proof. exact PathR.norm_pairs2. Qed.
Print Assumptions norm_pairs2.

Theorem norm_pairs4 : forall sx sy tx ty verb a0 a1 a2 a3,
  norm_args_gen GR (Some [sx; 0; tx; 0; sy; ty]%R) 4 verb [a0; a1; a2; a3] =
  let '(x0, y0) := trT sx sy tx ty verb a0 a1 in let '(x1, y1) := trT sx sy tx ty verb a2 a3 in [x0; y0; x1; y1].
Proof. exact PathR.norm_pairs4. Qed.
Print Assumptions norm_pairs4.

Theorem norm_pairs6 : forall sx sy tx ty verb a0 a1 a2 a3 a4 a5,
  norm_args_gen GR (Some [sx; 0; tx; 0; sy; ty]%R) 6 verb [a0; a1; a2; a3; a4; a5] =
  let '(x0, y0) := trT sx sy tx ty verb a0 a1 in let '(x1, y1) := trT sx sy tx ty verb a2 a3 in
  let '(x2, y2) := trT sx sy tx ty verb a4 a5 in [x0; y0; x1; y1; x2; y2].
Proof. exact PathR.norm_pairs6. Qed.
Print Assumptions norm_pairs6.

Theorem norm_arc : forall sx sy tx ty verb rx ry rot la sw x y,
  norm_args_gen GR (Some [sx; 0; tx; 0; sy; ty]%R) 7 verb [rx; ry; rot; la; sw; x; y] =
  let '(ex, ey) := trT sx sy tx ty verb x y in [rx * sx; ry * sy; rot; la; sw; ex; ey]%R.
Proof. exact PathR.norm_arc. Qed.
Print Assumptions norm_arc.

Theorem norm_HV : forall sx sy tx ty x,
  norm_args_gen GR (Some [sx; 0; tx; 0; sy; ty]%R) 1 72 [x] = [x * sx + tx]%R /\
  norm_args_gen GR (Some [sx; 0; tx; 0; sy; ty]%R) 1 104 [x] = [x * sx]%R /\
  norm_args_gen GR (Some [sx; 0; tx; 0; sy; ty]%R) 1 86 [x] = [x * sy + ty]%R /\
  norm_args_gen GR (Some [sx; 0; tx; 0; sy; ty]%R) 1 118 [x] = [x * sy]%R.
Proof. intros. repeat split; [apply PathR.norm_H|apply PathR.norm_h|apply PathR.norm_V|apply PathR.norm_v]. Qed.
Print Assumptions norm_HV.

Local Open Scope Z_scope.

Theorem opacity_one_register : forall adjs o, feq F32 o k1 = false -> feq F32 o o = true ->
  let '(_, a1, adjs1) := md_opacity adjs (Some o) in
  md_opacity adjs1 (Some o) = ([], a1, adjs1).
Proof. exact MdProofs.opacity_one_register. Qed.
Print Assumptions opacity_one_register.

Theorem opacity_new : forall adjs o, feq F32 o k1 = false -> adj_lookup adjs o = None ->
  let a := (Z.of_nat (length adjs) + 1) mod 256 in
  let t := match ftrunc F32 (fmul F32 o c255) with Some i => i mod 256 | None => 0 end in
  md_opacity adjs (Some o) = ([CSetCReg a false (CBlend t 127 128)], a, adjs ++ [(o, a)]).
Proof. exact MdProofs.opacity_new. Qed.
Print Assumptions opacity_new.

Theorem circles_calls : forall adj size ox oy outsize need cs,
  md_circles adj size ox oy outsize need cs =
  match cs with
  | [] => []
  | c :: cs' => md_circle adj size ox oy outsize need c ++ flat_map (md_circle adj size ox oy outsize false) cs'
  end.
Proof. exact MdProofs.circles_calls. Qed.
Print Assumptions circles_calls.

Theorem circle_shape : forall adj size ox oy outsize need c,
  exists mv r, md_circle adj size ox oy outsize need c =
    [mv; CArc true r r 0 false true (fmul F32 c2 r) 0; CArc true r r 0 false true (fmul F32 (fneg F32 c2) r) 0]
    /\ r = fdiv F32 (fmul F32 (ci_r c) outsize) size
    /\ match mv with
       | CStartPath a _ _ => need = true /\ a = adj
       | CDraw op [_; _] => need = false /\ op = opY
       | _ => False
       end.
Proof. exact MdProofs.circle_shape. Qed.
Print Assumptions circle_shape.

Theorem parse_path_shape : forall adjs opacity d size ox oy outsize circles,
  let '(pre, adj, adjs') := md_opacity adjs opacity in
  let '(pcalls, ok) := match d with [] => ([], true) | _ => md_parse_path_data d adj size ox oy outsize end in
  ok = true ->
  md_parse_path adjs opacity d size ox oy outsize circles =
  (pre ++ pcalls ++ md_circles adj size ox oy outsize (match d with [] => true | _ => false end) circles ++ [CEndPath],
   adjs', true).
Proof. exact MdProofs.parse_path_shape. Qed.
Print Assumptions parse_path_shape.

(* non-vacuity: "M1 2l3-4.5.5 6zm-1,1 2 2A1 1 90 0 1 5 5z" is in the dialect, and the theorem's right-hand
   side for it is: StartPath, two relative lines (the second from the implicit group ".5 6"), a relative
   close-and-move, a relative line, an arc, EndPath *)
Definition tk (s : list Z) (sep : list Z) := mkNum s sep.
Definition ex_path : list cmd :=
  [ Cmd 77 [tk [49] [32]; tk [50] []] [];
    Cmd 108 [tk [51] []; tk [45;52;46;53] []] [[tk [46;53] [32]; tk [54] []]];
    CmdZ 122;
    Cmd 109 [tk [45;49] [44]; tk [49] [32]] [[tk [50] [32]; tk [50] []]];
    Cmd 65 [tk [49] [32]; tk [49] [32]; tk [57;48] [32]; tk [48] [32]; tk [49] [32]; tk [53] [32]; tk [53] []] [] ].
Example ex_in_dialect : path_ok ex_path = true.
Proof. vm_compute. reflexivity. Qed.
Example ex_calls : map (fun c => match c with CStartPath _ _ _ => 1 | CDraw op _ => op | CArc _ _ _ _ _ _ _ _ => 2 | CEndPath => 3 | _ => 0 end)
                       (path_calls None 0 ex_path) = [1; 108; 108; opy; 108; 2; 3].
Proof. vm_compute. reflexivity. Qed.

(* non-vacuity for the converter: "M1 2l3-4 5 6 zM7 8h-.5" *)
Definition mk (sp : nat) (sg ip : list Z) (fr : option (list Z)) := mkMnum sp sg ip fr None.
Definition ex_mpath : list mcmd :=
  [ MCmd 0 77 [mk 0 [] [49] None; mk 1 [] [50] None] [];
    MCmd 0 108 [mk 0 [] [51] None; mk 0 [45] [52] None] [[mk 1 [] [53] None; mk 1 [] [54] None]];
    MZ 1 122;
    MCmd 0 77 [mk 0 [] [55] None; mk 1 [] [56] None] [];
    MCmd 0 104 [mk 0 [45] [] (Some [53])] [] ].
Example ex_m_in_dialect : mpath_ok ex_mpath 0 = true.
Proof. vm_compute. reflexivity. Qed.
Example ex_m_calls : map (fun c => match c with CStartPath _ _ _ => 1 | CDraw op _ => op | _ => 0 end)
                         (mpath_calls 0 (of_Z F32 24) 0 0 (of_Z F32 48) ex_mpath) = [1; 108; 108; opY; 104].
Proof. vm_compute. reflexivity. Qed.

(* ---- tie to the source: generate.Translate and generate.MulAff3, translated from /repo's working tree by
   harness/gosrc.go on every run (gen/GoSrc.v), are the float32 instances of the model's definitions. ---- *)
From IVG Require Import GoSem GoSrc GenEqGeom.

Theorem code_Translate : forall x y, go_generate_Translate x y = Generator.translate x y.
Proof. exact GenEqGeom.go_Translate_eq. Qed.
Print Assumptions code_Translate.

Theorem code_MulAff3 : forall x y a, go_generate_MulAff3 x y a = Generator.mul_aff3 x y a.
Proof. exact GenEqGeom.go_MulAff3_eq. Qed.
Print Assumptions code_MulAff3.

Theorem code_Concat : forall affs, go_generate_Concat affs = Generator.concat affs.
Proof. exact GenEqGeom.go_Concat_eq. Qed.
Print Assumptions code_Concat.

Theorem code_Scale : forall sx sy, go_generate_Scale [sx; sy] = Generator.scale2 sx sy.
Proof. exact GenEqGeom.go_Scale2_eq. Qed.
Print Assumptions code_Scale.

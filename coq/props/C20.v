From Coq Require Import ZArith.

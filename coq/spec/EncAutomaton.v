(* EncAutomaton.v — the 4-state protocol automaton the Encoder is specified by (C10).
   Written from the property text, independently of the Encoder model. *)
From Coq Require Import ZArith Bool List.
Import ListNotations.
Local Open Scope Z_scope.

Inductive astate := AInit | AStyling | ADrawing | AFailed.

(* classes of Encoder API calls *)
Inductive aclass :=
| KReset            (* Reset: legal anywhere, clears a failure *)
| KObserve          (* CSel / NSel / LOD / Bytes *)
| KNeutral          (* assignment to HighResolutionCoordinates *)
| KStyling          (* a well-formed styling operation *)
| KStartPath        (* a well-formed StartPath *)
| KBadStyling       (* styling op or StartPath with ADJ > 6, or incrementing form with ADJ <> 0 *)
| KDraw             (* drawing op other than close-and-end *)
| KEndPath.

Definition aut_step (s : astate) (k : aclass) : astate :=
  match k, s with
  | KReset, _ => AStyling
  | _, AFailed => AFailed
  | KObserve, AInit => AStyling
  | KObserve, s => s
  | KNeutral, s => s
  | KStyling, ADrawing => AFailed
  | KStyling, _ => AStyling
  | KStartPath, ADrawing => AFailed
  | KStartPath, _ => ADrawing
  | KBadStyling, _ => AFailed
  | KDraw, ADrawing => ADrawing
  | KDraw, _ => AFailed
  | KEndPath, ADrawing => AStyling
  | KEndPath, _ => AFailed
  end.

Definition aut_run (l : list aclass) : astate := fold_left aut_step l AInit.

(* FFV0.v — the IconVG FFV0 instruction grammar, written from spec/iconvg-spec-v0.md as inductive relations
   between byte strings and what they denote.  Nothing here mentions the decoder.  Section names refer to
   the specification.  Values that the specification gives as real-number formulas are written with the
   float32 operation that computes them (exact for every 1- and 2-byte form: C08 proves it); a number or
   colour "encodes" a value when its bytes are exactly the listed bytes — no trailing bytes. *)
From Coq Require Import ZArith Bool List.
From IVG Require Import SF NumCodec Color Calls.
Import ListNotations.
Local Open Scope Z_scope.

(* ---- Numbers ---- *)
(* Natural Numbers: the low bit(s) of the first byte select the length; the remaining 7/14/30 bits, little endian *)
Inductive nat_enc : list byte -> Z -> Prop :=
| NE1 x : x mod 2 = 0 -> nat_enc [x] (x / 2)
| NE2 x y : x mod 4 = 1 -> nat_enc [x; y] ((x + 256 * y) / 4)
| NE4 x y z w : x mod 4 = 3 -> nat_enc [x; y; z; w] ((x + 256 * y + 65536 * z + 16777216 * w) / 4).

(* the float32 whose bit pattern is the 30 bits shifted left by 2 *)
Definition bits30 (u : Z) : f32 := (u * 4) mod 4294967296.

Inductive real_enc : list byte -> f32 -> Prop :=
| RE_short bs u : nat_enc bs u -> (length bs < 4)%nat -> real_enc bs (of_Z F32 u)
| RE_4 bs u : nat_enc bs u -> length bs = 4%nat -> real_enc bs (bits30 u).

(* Coordinate Numbers: 1 byte: R - 64; 2 bytes: R/64 - 128 = (R - 8192)/64; 4 bytes: R *)
Inductive coord_enc : list byte -> f32 -> Prop :=
| CE1 bs u : nat_enc bs u -> length bs = 1%nat -> coord_enc bs (of_Z F32 (u - 64))
| CE2 bs u : nat_enc bs u -> length bs = 2%nat -> coord_enc bs (fdiv F32 (of_Z F32 (u - 8192)) (of_Z F32 64))
| CE4 bs u : nat_enc bs u -> length bs = 4%nat -> coord_enc bs (bits30 u).

(* Zero-to-One Numbers: R/120, R/15120, R *)
Inductive zto_enc : list byte -> f32 -> Prop :=
| ZE1 bs u : nat_enc bs u -> length bs = 1%nat -> zto_enc bs (fdiv F32 (of_Z F32 u) (of_Z F32 120))
| ZE2 bs u : nat_enc bs u -> length bs = 2%nat -> zto_enc bs (fdiv F32 (of_Z F32 u) (of_Z F32 15120))
| ZE4 bs u : nat_enc bs u -> length bs = 4%nat -> zto_enc bs (bits30 u).

(* ---- Colors ---- *)
Definition level5 (i : Z) : Z := nth (Z.to_nat i) [0; 64; 128; 192; 255] 0.
Definition color1 (x : Z) : color :=
  if x <? 125 then CRGBA (mkRGBA (level5 (x / 25)) (level5 ((x / 5) mod 5)) (level5 (x mod 5)) 255)
  else if x =? 125 then CRGBA (mkRGBA 192 192 192 192)
  else if x =? 126 then CRGBA (mkRGBA 128 128 128 128)
  else if x =? 127 then CRGBA (mkRGBA 0 0 0 0)
  else if x <? 192 then CPal (x - 128)
  else CCReg (x - 192).

(* form 0..4: 1 byte, 2 byte, 3 byte direct, 4 byte, 3 byte indirect *)
Inductive color_enc : Z -> list byte -> color -> Prop :=
| CO1 x : color_enc 0 [x] (color1 x)
| CO2 x y : color_enc 1 [x; y] (CRGBA (mkRGBA (17 * (x / 16)) (17 * (x mod 16)) (17 * (y / 16)) (17 * (y mod 16))))
| CO3 r g b : color_enc 2 [r; g; b] (CRGBA (mkRGBA r g b 255))
| CO4 r g b a : color_enc 3 [r; g; b; a] (CRGBA (mkRGBA r g b a))
| CO3i t c0 c1 : color_enc 4 [t; c0; c1] (CBlend t c0 c1).

(* ---- Styling Opcodes ---- *)
Definition adj_of (op : Z) : Z := if op mod 8 =? 7 then 0 else op mod 8.   (* ADJ; the xF/x7 forms increment instead *)
Definition incr_of (op : Z) : bool := op mod 8 =? 7.

(* bytes of one styling instruction, the operation, and whether it switches to drawing mode *)
Inductive styling : list byte -> call -> bool -> Prop :=
| S_CSel op : 0 <= op < 64 -> styling [op] (CSetCSel op) false
| S_NSel op : 64 <= op < 128 -> styling [op] (CSetNSel (op - 64)) false
| S_CReg op bs c : 128 <= op < 168 -> color_enc ((op - 128) / 8) bs c ->
    styling (op :: bs) (CSetCReg (adj_of op) (incr_of op) c) false
| S_NReg_real op bs f : 168 <= op < 176 -> real_enc bs f -> styling (op :: bs) (CSetNReg (adj_of op) (incr_of op) f) false
| S_NReg_coord op bs f : 176 <= op < 184 -> coord_enc bs f -> styling (op :: bs) (CSetNReg (adj_of op) (incr_of op) f) false
| S_NReg_zto op bs f : 184 <= op < 192 -> zto_enc bs f -> styling (op :: bs) (CSetNReg (adj_of op) (incr_of op) f) false
| S_Start op bx by_ x y : 192 <= op < 199 -> coord_enc bx x -> coord_enc by_ y ->
    styling (op :: bx ++ by_) (CStartPath (op - 192) x y) true
| S_LOD b0 b1 l0 l1 : real_enc b0 l0 -> real_enc b1 l1 -> styling (199 :: b0 ++ b1) (CSetLOD l0 l1) false.

(* ---- Drawing Opcodes ---- *)
Inductive coords_enc : nat -> list byte -> list f32 -> Prop :=
| CS_nil : coords_enc 0 [] []
| CS_cons k b x bs xs : coord_enc b x -> coords_enc k bs xs -> coords_enc (S k) (b ++ bs) (x :: xs).

(* run opcodes 0x00-0xDF: operation letter, coordinates per repetition (arcs: their own operands), repeat count *)
Inductive run_header : Z -> Z -> nat -> Z -> Prop :=
| RH_L op : 0 <= op < 32 -> run_header op opL 2 (op + 1)
| RH_l op : 32 <= op < 64 -> run_header op opl 2 (op - 31)
| RH_T op : 64 <= op < 80 -> run_header op opT 2 (op - 63)
| RH_t op : 80 <= op < 96 -> run_header op opt 2 (op - 79)
| RH_Q op : 96 <= op < 112 -> run_header op opQ 4 (op - 95)
| RH_q op : 112 <= op < 128 -> run_header op opq 4 (op - 111)
| RH_S op : 128 <= op < 144 -> run_header op opS 4 (op - 127)
| RH_s op : 144 <= op < 160 -> run_header op ops 4 (op - 143)
| RH_C op : 160 <= op < 176 -> run_header op opC 6 (op - 159)
| RH_c op : 176 <= op < 192 -> run_header op opc 6 (op - 175)
| RH_A op : 192 <= op < 208 -> run_header op opA 0 (op - 191)
| RH_a op : 208 <= op < 224 -> run_header op opa 0 (op - 207).

(* one repetition *)
Inductive rep_enc (op : Z) (k : nat) : list byte -> call -> Prop :=
| RP_draw bs xs : op <> opA -> op <> opa -> coords_enc k bs xs -> rep_enc op k bs (CDraw op xs)
| RP_arc brx bry brot bfl bx by_ rx ry rot fl x y : op = opA \/ op = opa ->
    coord_enc brx rx -> coord_enc bry ry -> zto_enc brot rot -> nat_enc bfl fl -> coord_enc bx x -> coord_enc by_ y ->
    rep_enc op k (brx ++ bry ++ brot ++ bfl ++ bx ++ by_)
            (CArc (op =? opa) rx ry rot (negb (fl mod 2 =? 0)) (negb ((fl / 2) mod 2 =? 0)) x y).

Inductive reps_enc (op : Z) (k : nat) : nat -> list byte -> list call -> Prop :=
| RS_nil : reps_enc op k 0 [] []
| RS_cons n b c bs cs : rep_enc op k b c -> reps_enc op k n bs cs -> reps_enc op k (S n) (b ++ bs) (c :: cs).

Inductive simple_op : Z -> Z -> nat -> Prop :=
| SO_Y : simple_op 226 opY 2 | SO_y : simple_op 227 opy 2
| SO_H : simple_op 230 opH 1 | SO_h : simple_op 231 oph 1
| SO_V : simple_op 232 opV 1 | SO_v : simple_op 233 opv 1.

(* bytes of one drawing instruction, the operations, and whether drawing mode continues *)
Inductive drawing : list byte -> list call -> bool -> Prop :=
| D_run opc op k rc bs cs : run_header opc op k rc -> reps_enc op k (Z.to_nat rc) bs cs -> drawing (opc :: bs) cs true
| D_end : drawing [225] [CEndPath] false
| D_simple opc op k bs xs : simple_op opc op k -> coords_enc k bs xs -> drawing (opc :: bs) [CDraw op xs] true.

(* ---- the instruction stream: styling mode first; any opcode not listed is reserved (no derivation) ---- *)
Inductive prog : bool -> list byte -> list call -> Prop :=
| P_nil d : prog d [] []
| P_styling bs c d' rest cs : styling bs c d' -> prog d' rest cs -> prog false (bs ++ rest) (c :: cs)
| P_drawing bs cs1 d' rest cs : drawing bs cs1 d' -> prog d' rest cs -> prog true (bs ++ rest) (cs1 ++ cs).

(* ---- Metadata ---- *)
Definition inf_or_nan (f : f32) : bool := (f / 8388608) mod 256 =? 255.
Definition vb_invalid (v : viewbox) : bool :=
  fgt F32 (vminx v) (vmaxx v) || fgt F32 (vminy v) (vmaxy v) ||
  inf_or_nan (vminx v) || inf_or_nan (vminy v) || inf_or_nan (vmaxx v) || inf_or_nan (vmaxy v).

(* an explicit palette entry: a direct colour; references resolve to opaque black.  (A direct colour that is
   not a valid premultiplied colour is also replaced by opaque black: the implementation's choice where the
   specification leaves the rendering undefined.) *)
Definition palette_entry (c : color) : rgba :=
  match c with CRGBA d => if valid_premul d then d else opaque_black | _ => opaque_black end.

Inductive pal_colors (form : Z) : nat -> list byte -> list rgba -> Prop :=
| PC_nil : pal_colors form 0 [] []
| PC_cons n b c bs cs : color_enc form b c -> pal_colors form n bs cs -> pal_colors form (S n) (b ++ bs) (palette_entry c :: cs).

(* chunk = length of the rest, MID, MID-specific data *)
Inductive vb_chunk : list byte -> viewbox -> Prop :=
| VBC bl bmid b0 b1 b2 b3 x0 y0 x1 y1 :
    nat_enc bmid 0 -> coord_enc b0 x0 -> coord_enc b1 y0 -> coord_enc b2 x1 -> coord_enc b3 y1 ->
    nat_enc bl (Z.of_nat (length (bmid ++ b0 ++ b1 ++ b2 ++ b3))) ->
    vb_invalid (mkVB x0 y0 x1 y1) = false ->
    vb_chunk (bl ++ bmid ++ b0 ++ b1 ++ b2 ++ b3) (mkVB x0 y0 x1 y1).

Inductive pal_chunk : list byte -> list rgba -> Prop :=
| PLC bl bmid h bs ex :
    nat_enc bmid 1 -> 0 <= h < 256 -> pal_colors (h / 64) (Z.to_nat (1 + h mod 64)) bs ex ->
    nat_enc bl (Z.of_nat (length (bmid ++ h :: bs))) ->
    pal_chunk (bl ++ bmid ++ h :: bs) (ex ++ repeat opaque_black (63 - Z.to_nat (h mod 64))).

(* chunks in increasing MID order, none repeated, all optional; defaults otherwise *)
Inductive metadata : list byte -> viewbox -> list rgba -> Prop :=
| MD_none bn : nat_enc bn 0 -> metadata bn default_viewbox default_palette
| MD_vb bn c vb : nat_enc bn 1 -> vb_chunk c vb -> metadata (bn ++ c) vb default_palette
| MD_pal bn c pal : nat_enc bn 1 -> pal_chunk c pal -> metadata (bn ++ c) default_viewbox pal
| MD_both bn c0 c1 vb pal : nat_enc bn 2 -> vb_chunk c0 vb -> pal_chunk c1 pal -> metadata (bn ++ c0 ++ c1) vb pal.

(* ---- a whole graphic: the magic identifier, the metadata, the instructions; what a Destination receives ---- *)
Inductive ffv0 : list byte -> list call -> Prop :=
| FFV0 md code vb pal cs : metadata md vb pal -> prog false code cs ->
    ffv0 ([137; 73; 86; 71] ++ md ++ code) (CReset vb pal :: cs).

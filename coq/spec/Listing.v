(* Listing.v — how a disassembly listing is read back (C11): a left-to-right pass over the payloads of
   the lines that reconstructs the operations the listing announces.  Written from the listing format
   (instruction line followed by its operand lines), independently of the decoder model. *)
From Coq Require Import ZArith Bool List.
From IVG Require Import SF NumCodec Color Calls Decoder.
Import ListNotations.
Local Open Scope Z_scope.

Inductive pend :=
| PIdle
| PWantColor (adj : Z) (incr : bool)
| PWantNum (adj : Z) (incr : bool)
| PNums (mk : list f32 -> call) (need : nat) (acc : list f32)
| PArcS (rel : bool) (stage : nat) (acc : list f32) (fl : Z)
| PBad.

Definition op_arity (op : Z) : nat :=
  if (op =? opH) || (op =? oph) || (op =? opV) || (op =? opv) then 1%nat
  else if (op =? opQ) || (op =? opq) || (op =? opS) || (op =? ops) then 4%nat
  else if (op =? opC) || (op =? opc) then 6%nat
  else 2%nat.

Definition start_op (op : Z) : pend :=
  if op =? opA then PArcS false 0 [] 0
  else if op =? opa then PArcS true 0 [] 0
  else PNums (CDraw op) (op_arity op) [].

Definition lstep (st : pend * list call) (p : payload) : pend * list call :=
  let '(s, out) := st in
  match s, p with
  | PIdle, PSetCSel v => (PIdle, out ++ [CSetCSel v])
  | PIdle, PSetNSel v => (PIdle, out ++ [CSetNSel v])
  | PIdle, PSetCReg adj incr _ => (PWantColor adj incr, out)
  | PIdle, PSetNReg adj incr _ => (PWantNum adj incr, out)
  | PIdle, PStartPath adj => (PNums (fun xs => CStartPath adj (nth 0 xs 0) (nth 1 xs 0)) 2 [], out)
  | PIdle, PSetLOD => (PNums (fun xs => CSetLOD (nth 0 xs 0) (nth 1 xs 0)) 2 [], out)
  | PIdle, PDrawOp op _ => (start_op op, out)
  | PIdle, PImplicit op => (start_op op, out)
  | PIdle, PSimple op => if op =? opZ then (PIdle, out ++ [CEndPath]) else (start_op op, out)
  | PWantColor adj incr, PColor c => (PIdle, out ++ [CSetCReg adj incr c])
  | PWantNum adj incr, PNRegNum x => (PIdle, out ++ [CSetNReg adj incr x])
  | PNums mk (S need) acc, PNum x =>
      match need with
      | O => (PIdle, out ++ [mk (acc ++ [x])])
      | _ => (PNums mk need (acc ++ [x]), out)
      end
  | PArcS rel 0 acc fl, PNum x => (PArcS rel 1 (acc ++ [x]) fl, out)
  | PArcS rel 1 acc fl, PNum x => (PArcS rel 2 (acc ++ [x]) fl, out)
  | PArcS rel 2 acc fl, PAngle x => (PArcS rel 3 (acc ++ [x]) fl, out)
  | PArcS rel 3 acc _, PFlags f => (PArcS rel 4 acc f, out)
  | PArcS rel 4 acc fl, PNum x => (PArcS rel 5 (acc ++ [x]) fl, out)
  | PArcS rel 5 acc fl, PNum y =>
      (PIdle, out ++ [CArc rel (nth 0 acc 0) (nth 1 acc 0) (nth 2 acc 0)
                           (negb (fl mod 2 =? 0)) (negb ((fl / 2) mod 2 =? 0)) (nth 3 acc 0) y])
  | _, _ => (PBad, out)
  end.

Definition read_listing (l : list payload) : pend * list call := fold_left lstep l (PIdle, []).

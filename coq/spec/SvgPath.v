(* SvgPath.v — the meaning of IconVG / SVG path operations in viewBox space, over the reals (C05).
   Written from the SVG path semantics the specification refers to: a pen, the start of the current
   sub-path, and the previous control point for the smooth operators. *)
From Coq Require Import Reals List ZArith.
From IVG Require Import Calls.
Import ListNotations.
Local Open Scope R_scope.

Definition pt := (R * R)%type.

Inductive seg :=
| SMove (p : pt) | SLine (p : pt) | SQuad (c p : pt) | SCube (c1 c2 p : pt) | SClose.

Inductive ckind := KNone | KQuad | KCube.

Record pstate := mkP { p_pen : pt; p_start : pt; p_kind : ckind; p_ctrl : pt }.

Definition padd (a b : pt) : pt := (fst a + fst b, snd a + snd b).
Definition reflect (pen c : pt) : pt := (2 * fst pen - fst c, 2 * snd pen - snd c).

(* one path operation (by its letter) with its real-valued arguments *)
Definition svg_step (st : pstate) (op : Z) (a : list R) : pstate * list seg :=
  let g (i : nat) := nth i a 0 in
  let pen := p_pen st in
  let line (p : pt) := (mkP p (p_start st) KNone (p_ctrl st), [SLine p]) in
  let quad (c p : pt) := (mkP p (p_start st) KQuad c, [SQuad c p]) in
  let cube (c1 c2 p : pt) := (mkP p (p_start st) KCube c2, [SCube c1 c2 p]) in
  let smooth (k : ckind) := match p_kind st, k with
                            | KQuad, KQuad | KCube, KCube => reflect pen (p_ctrl st)
                            | _, _ => pen end in
  if Z.eqb op opL then line (g 0%nat, g 1%nat)
  else if Z.eqb op opl then line (padd pen (g 0%nat, g 1%nat))
  else if Z.eqb op opH then line (g 0%nat, snd pen)
  else if Z.eqb op oph then line (fst pen + g 0%nat, snd pen)
  else if Z.eqb op opV then line (fst pen, g 0%nat)
  else if Z.eqb op opv then line (fst pen, snd pen + g 0%nat)
  else if Z.eqb op opQ then quad (g 0%nat, g 1%nat) (g 2%nat, g 3%nat)
  else if Z.eqb op opq then quad (padd pen (g 0%nat, g 1%nat)) (padd pen (g 2%nat, g 3%nat))
  else if Z.eqb op opT then quad (smooth KQuad) (g 0%nat, g 1%nat)
  else if Z.eqb op opt then quad (smooth KQuad) (padd pen (g 0%nat, g 1%nat))
  else if Z.eqb op opC then cube (g 0%nat, g 1%nat) (g 2%nat, g 3%nat) (g 4%nat, g 5%nat)
  else if Z.eqb op opc then cube (padd pen (g 0%nat, g 1%nat)) (padd pen (g 2%nat, g 3%nat)) (padd pen (g 4%nat, g 5%nat))
  else if Z.eqb op opS then cube (smooth KCube) (g 0%nat, g 1%nat) (g 2%nat, g 3%nat)
  else if Z.eqb op ops then cube (smooth KCube) (padd pen (g 0%nat, g 1%nat)) (padd pen (g 2%nat, g 3%nat))
  else if Z.eqb op opY then
    let p := (g 0%nat, g 1%nat) in (mkP p p KNone (p_ctrl st), [SClose; SMove p])
  else if Z.eqb op opy then
    (* close first: the pen is back at the sub-path start, the move is relative to it *)
    let p := padd (p_start st) (g 0%nat, g 1%nat) in (mkP p p KNone (p_ctrl st), [SClose; SMove p])
  else (st, []).

Fixpoint svg_run (st : pstate) (ops : list (Z * list R)) : pstate * list seg :=
  match ops with
  | [] => (st, [])
  | (op, a) :: r =>
      let '(st1, s1) := svg_step st op a in
      let '(st2, s2) := svg_run st1 r in
      (st2, s1 ++ s2)
  end.

(* a whole path: move to the start, the operations, close *)
Definition svg_path (start : pt) (ops : list (Z * list R)) : list seg :=
  SMove start :: snd (svg_run (mkP start start KNone start) ops) ++ [SClose].

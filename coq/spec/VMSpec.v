(* VMSpec.v — the register machine of the IconVG specification (C04), written from the spec text:
   64 colour and 64 number registers addressed modulo 64 as selector minus ADJ, post-increment variants,
   colours resolved when stored, level-of-detail test at StartPath, and the paint each path is given. *)
From Coq Require Import ZArith Bool List.
From IVG Require Import SF NumCodec Color Calls.
Import ListNotations.
Local Open Scope Z_scope.

Record vm := mkVM {
  v_creg : Z -> rgba;      (* total functions; only the index modulo 64 matters *)
  v_nreg : Z -> f32;
  v_csel : Z; v_nsel : Z;
  v_lod0 : f32; v_lod1 : f32;
  v_pal : Z -> rgba
}.

Definition upd {A} (f : Z -> A) (i : Z) (x : A) : Z -> A :=
  fun j => if (j mod 64) =? (i mod 64) then x else f j.

(* resolving an indirect colour against the palette and the registers, as the specification describes *)
Definition vm_resolve1 (m : vm) (c : color) : rgba :=
  match c with
  | CRGBA d => d
  | CPal i => v_pal m i
  | CCReg i => v_creg m i
  | CBlend _ _ _ => mkRGBA 0 0 0 0
  end.
Definition vm_resolve (m : vm) (c : color) : rgba :=
  match c with
  | CBlend t c0 c1 =>
      let a := vm_resolve1 m (decode_color1 c0) in
      let b := vm_resolve1 m (decode_color1 c1) in
      mkRGBA (blend_chan t (cr a) (cr b)) (blend_chan t (cg a) (cg b)) (blend_chan t (cb a) (cb b)) (blend_chan t (ca a) (ca b))
  | _ => vm_resolve1 m c
  end.

Definition vm_reset (pal : Z -> rgba) : vm :=
  mkVM pal (fun _ => 0) 0 0 0 2139095040 pal.     (* LOD = [0, +inf) *)

(* styling instructions *)
Definition vm_step (m : vm) (c : call) : vm :=
  match c with
  | CSetCSel v => mkVM (v_creg m) (v_nreg m) (v mod 64) (v_nsel m) (v_lod0 m) (v_lod1 m) (v_pal m)
  | CSetNSel v => mkVM (v_creg m) (v_nreg m) (v_csel m) (v mod 64) (v_lod0 m) (v_lod1 m) (v_pal m)
  | CSetCReg adj incr col =>
      mkVM (upd (v_creg m) (v_csel m - adj) (vm_resolve m col)) (v_nreg m)
           (if incr then (v_csel m + 1) mod 64 else v_csel m) (v_nsel m) (v_lod0 m) (v_lod1 m) (v_pal m)
  | CSetNReg adj incr x =>
      mkVM (v_creg m) (upd (v_nreg m) (v_nsel m - adj) x) (v_csel m)
           (if incr then (v_nsel m + 1) mod 64 else v_nsel m) (v_lod0 m) (v_lod1 m) (v_pal m)
  | CSetLOD a b => mkVM (v_creg m) (v_nreg m) (v_csel m) (v_nsel m) a b (v_pal m)
  | _ => m
  end.

(* what a path is painted with *)
Inductive vpaint :=
| VSkip
| VFlat (c : rgba)
| VGrad (shape spread : Z) (stops : list (f32 * rgba)) (matrix : list f32).

(* the stops of a gradient: NSTOPS registers from CBASE / NBASE *)
Definition vm_stops (m : vm) (cbase nbase nstops : Z) : list (f32 * rgba) :=
  map (fun i => (v_nreg m (nbase + Z.of_nat i), v_creg m (cbase + Z.of_nat i))) (seq 0 (Z.to_nat nstops)).

(* valid: every colour premultiplied, every offset in [0,1], offsets strictly increasing *)
Fixpoint stops_valid (prev : option f32) (l : list (f32 * rgba)) : bool :=
  match l with
  | [] => true
  | (off, col) :: r =>
      valid_premul col && fle F32 0 off && fle F32 off 1065353216 &&
      (match prev with None => true | Some p => flt F32 p off end) && stops_valid (Some off) r
  end.

Definition vm_paint (m : vm) (adj : Z) (height : Z) : vpaint :=
  let h := of_Z F32 height in
  if negb (fle F32 (v_lod0 m) h && flt F32 h (v_lod1 m)) then VSkip
  else
    let c := v_creg m (v_csel m - adj) in
    if valid_premul c then (if ca c =? 0 then VSkip else VFlat c)
    else if valid_gradient c then
      let g := decode_gradient c in
      let stops := vm_stops m (gp_cbase g) (gp_nbase g) (gp_nstops g) in
      if (2 <=? gp_nstops g) && stops_valid None stops then
        VGrad (gp_shape g) (gp_spread g) stops (map (fun k => v_nreg m (gp_nbase g - k)) [6; 5; 4; 3; 2; 1])
      else VSkip
    else VSkip.

//go:build verif

package main

import (
	"fmt"
	"strings"

	"github.com/reactivego/ivg"
	"github.com/reactivego/ivg/decode"
)

func encs(b []byte, ok bool) string {
	if !ok {
		return "-"
	}
	return hexs(b)
}

func init() {
	handlers["C1"] = func(a []string) string {
		return tokOfColor(ivg.DecodeColor1(uint8(intarg(a[0]))))
	}
	handlers["CF"] = func(a []string) string {
		c, n := decode.VerifDecodeColor(intarg(a[0]), hexarg(a[1]))
		if n == 0 {
			return "- 0"
		}
		return fmt.Sprintf("%s %d", tokOfColor(c), n)
	}
	handlers["CE"] = func(a []string) string {
		c := colorOfTok(a[0])
		var out []string
		x1, ok1 := c.Encode1()
		out = append(out, "e1="+encs([]byte{x1}, ok1))
		x2, ok2 := c.Encode2()
		out = append(out, "e2="+encs(x2[:], ok2))
		x3, ok3 := c.Encode3Direct()
		out = append(out, "e3="+encs(x3[:], ok3))
		x4, ok4 := c.Encode4()
		out = append(out, "e4="+encs(x4[:], ok4))
		x5, ok5 := c.Encode3Indirect()
		out = append(out, "e3i="+encs(x5[:], ok5))
		r, okr := c.RGBA()
		out = append(out, fmt.Sprintf("rgba=%s,%v", hexOfRGBA(r), okr))
		return strings.Join(out, " ")
	}
	handlers["RS"] = func(a []string) string {
		pal := palOfTok(a[1])
		creg := palOfTok(a[2])
		p0, c0 := pal, creg
		r := colorOfTok(a[0]).Resolve(&pal, &creg)
		if pal != p0 || creg != c0 {
			return "CONTEXT-MODIFIED"
		}
		return hexOfRGBA(r)
	}
	handlers["EGR"] = func(a []string) string {
		return hexOfRGBA(ivg.EncodeGradient(uint8(intarg(a[0])), uint8(intarg(a[1])), uint8(intarg(a[2])), uint8(intarg(a[3])), uint8(intarg(a[4]))))
	}
	handlers["DGR"] = func(a []string) string {
		c := rgbaOfHex(a[0])
		cb, nb, sh, sp, ns := ivg.DecodeGradient(c)
		return fmt.Sprintf("%d %d %d %d %d premul=%v grad=%v", cb, nb, sh, sp, ns, ivg.ValidAlphaPremulColor(c), ivg.ValidGradient(c))
	}
}

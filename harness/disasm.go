//go:build verif

package main

import (
	"fmt"
	"math"
	"regexp"
	"strconv"
	"strings"

	"github.com/reactivego/ivg/decode"
)

// Parses the text produced by decode.Disassemble back into (hex column, structured payload)
// pairs, so that the listing can be compared with the model's structured lines.

func numTok(s string) string {
	s = strings.TrimPrefix(s, "+")
	f, err := strconv.ParseFloat(s, 32)
	if err != nil && !math.IsInf(f, 0) {
		return "?num:" + s
	}
	f32 := float32(f)
	if f32 != f32 {
		return "nan"
	}
	return f32s(f32)
}

var (
	reNChunks   = regexp.MustCompile(`^Number of metadata chunks: (\d+)$`)
	reChunkLen  = regexp.MustCompile(`^Metadata chunk length: (\d+)$`)
	reMid       = regexp.MustCompile(`^Metadata Identifier: (\d+) \((.*)\)$`)
	rePalHdr    = regexp.MustCompile(`^    (\d+) palette colors, (\d+) bytes per color$`)
	reCSel      = regexp.MustCompile(`^Set CSEL = (\d+)$`)
	reNSel      = regexp.MustCompile(`^Set NSEL = (\d+)$`)
	reSetCReg   = regexp.MustCompile(`^Set CREG\[CSEL-(\d+)\] to a (\d) byte( \(direct\)| \(indirect\)|) color(; CSEL\+\+)?$`)
	reSetNReg   = regexp.MustCompile(`^Set NREG\[NSEL-(\d+)\] to a (real|coordinate|zero-to-one) number(; NSEL\+\+)?$`)
	reStartPath = regexp.MustCompile(`^Start path, filled with CREG\[CSEL-(\d+)\]; M \(absolute moveTo\)$`)
	reDrawOp    = regexp.MustCompile(`^([A-Za-z]) \(.*\), (\d+) reps$`)
	reImplicit  = regexp.MustCompile(`^([A-Za-z]) \(.*\), implicit$`)
	reAngle     = regexp.MustCompile(`^    (\S+) × 360 degrees \((\S+) degrees\)$`)
	reFlags     = regexp.MustCompile(`^    (0x[0-9a-f]+|0) \(largeArc=(\d), sweep=(\d)\)$`)
	reGradient  = regexp.MustCompile(`^gradient \(NSTOPS=(\d+), CBASE=(\d+), NBASE=(\d+), (linear|radial), (none|pad|reflect|repeat)\)$`)
	reBlend     = regexp.MustCompile(`^blend \((\d+):(\d+)\) \((.*):(.*)\)$`)
	rePalIdx    = regexp.MustCompile(`^customPalette\[(\d+)\]$`)
	reCRegIdx   = regexp.MustCompile(`^CREG\[(\d+)\]$`)
)

var simpleLines = map[string]string{
	"z (closePath); end path":            "Z",
	"z (closePath); M (absolute moveTo)": "Y",
	"z (closePath); m (relative moveTo)": "y",
	"H (absolute horizontal lineTo)":     "H",
	"h (relative horizontal lineTo)":     "h",
	"V (absolute vertical lineTo)":       "V",
	"v (relative vertical lineTo)":       "v",
}

func colorStrTok(s string) string {
	if strings.HasPrefix(s, "RGBA ") && len(s) == 13 {
		return "#" + s[5:]
	}
	if m := rePalIdx.FindStringSubmatch(s); m != nil {
		return "p" + m[1]
	}
	if m := reCRegIdx.FindStringSubmatch(s); m != nil {
		return "c" + m[1]
	}
	if m := reGradient.FindStringSubmatch(s); m != nil {
		shape := map[string]string{"linear": "0", "radial": "1"}[m[4]]
		spread := map[string]string{"none": "0", "pad": "1", "reflect": "2", "repeat": "3"}[m[5]]
		return "grad:" + m[1] + ":" + m[2] + ":" + m[3] + ":" + shape + ":" + spread
	}
	if s == "nonsensical color" {
		return "nonsense"
	}
	if m := reBlend.FindStringSubmatch(s); m != nil {
		// the two operands are 1 byte colours; split at the colon between them
		return "b:" + m[1] + ":" + m[2] + ":" + colorStrTok(m[3]) + ":" + colorStrTok(m[4])
	}
	return "?color:" + strings.ReplaceAll(s, " ", "_")
}

func parseLine(text string) string {
	if text == "IconVG Magic identifier" {
		return "magic"
	}
	if m := reNChunks.FindStringSubmatch(text); m != nil {
		return "nchunks=" + m[1]
	}
	if m := reChunkLen.FindStringSubmatch(text); m != nil {
		return "chunklen=" + m[1]
	}
	if m := reMid.FindStringSubmatch(text); m != nil {
		return "mid=" + m[1]
	}
	if m := rePalHdr.FindStringSubmatch(text); m != nil {
		return "palhdr=" + m[1] + "," + m[2]
	}
	if m := reCSel.FindStringSubmatch(text); m != nil {
		return "csel=" + m[1]
	}
	if m := reNSel.FindStringSubmatch(text); m != nil {
		return "nsel=" + m[1]
	}
	if m := reSetCReg.FindStringSubmatch(text); m != nil {
		form := map[string]string{"1": "0", "2": "1", "3 (direct)": "2", "4": "3", "3 (indirect)": "4"}[m[2]+m[3]]
		incr := "0"
		if m[4] != "" {
			incr = "1"
		}
		return "setcreg=" + m[1] + "," + incr + "," + form
	}
	if m := reSetNReg.FindStringSubmatch(text); m != nil {
		typ := map[string]string{"real": "0", "coordinate": "1", "zero-to-one": "2"}[m[2]]
		incr := "0"
		if m[3] != "" {
			incr = "1"
		}
		return "setnreg=" + m[1] + "," + incr + "," + typ
	}
	if m := reStartPath.FindStringSubmatch(text); m != nil {
		return "startpath=" + m[1]
	}
	if text == "Set LOD" {
		return "setlod"
	}
	if m := reDrawOp.FindStringSubmatch(text); m != nil {
		return "op=" + m[1] + "," + m[2]
	}
	if m := reImplicit.FindStringSubmatch(text); m != nil {
		return "implicit=" + m[1]
	}
	if s, ok := simpleLines[text]; ok {
		return "simple=" + s
	}
	if m := reAngle.FindStringSubmatch(text); m != nil {
		return "angle=" + numTok(m[1])
	}
	if m := reFlags.FindStringSubmatch(text); m != nil {
		x, _ := strconv.ParseUint(strings.TrimPrefix(m[1], "0x"), 16, 64)
		return fmt.Sprintf("flags=%d,%s,%s", x, m[2], m[3])
	}
	if strings.HasPrefix(text, "    ") {
		t := text[4:]
		if _, err := strconv.ParseFloat(strings.TrimPrefix(t, "+"), 64); err == nil {
			return "num=" + numTok(t)
		}
		return "color=" + colorStrTok(t)
	}
	return "?line:" + strings.ReplaceAll(text, " ", "_")
}

func disStr(b []byte) string {
	orig := append([]byte(nil), b...)
	out, err := decode.Disassemble(b)
	if string(orig) != string(b) {
		return "INPUT-MODIFIED"
	}
	if err != nil {
		if out != nil {
			return "LISTING-WITH-ERROR"
		}
		return decOutcome(err)
	}
	var parts []string
	for _, line := range strings.Split(strings.TrimSuffix(string(out), "\n"), "\n") {
		if len(line) < 14 {
			parts = append(parts, "?short:"+strings.ReplaceAll(line, " ", "_"))
			continue
		}
		col := strings.ReplaceAll(strings.TrimRight(line[:14], " "), " ", "")
		if col == "" {
			col = "-"
		}
		parts = append(parts, col+"|"+parseLine(line[14:]))
	}
	return "OK " + strings.Join(parts, " ")
}

func init() {
	handlers["DIS"] = func(a []string) string { return disStr(hexarg(a[0])) }
	// Decode and Disassemble on the same bytes
	handlers["DD"] = func(a []string) string { return decStr(hexarg(a[0])) + " || " + disStr(hexarg(a[0])) }
}

//go:build verif

package main

// Write-footprint extractor (C18): type-checks the packages of /repo and reports, per function,
// the package-level variables it may write and whether it stores through a []byte, *[64]color.RGBA
// or [64]color.RGBA-pointer parameter.  Output: coq/gen/Footprint.v.

import (
	"fmt"
	"go/ast"
	"go/importer"
	"go/parser"
	"go/token"
	"go/types"
	"os"
	"path/filepath"
	"sort"
	"strings"
)

type fpEntry struct {
	pkg, fn    string
	globals    []string
	paramStore bool
}

func rootIdent(e ast.Expr) *ast.Ident {
	for {
		switch v := e.(type) {
		case *ast.Ident:
			return v
		case *ast.SelectorExpr:
			// pkg.Var or x.f
			if id, ok := v.X.(*ast.Ident); ok {
				_ = id
			}
			e = v.X
		case *ast.IndexExpr:
			e = v.X
		case *ast.StarExpr:
			e = v.X
		case *ast.ParenExpr:
			e = v.X
		case *ast.SliceExpr:
			e = v.X
		default:
			return nil
		}
	}
}

func footprintMain(repo string) {
	pkgs := []string{".", "encode", "decode", "render", "generate", "raster", "raster/vec", "mdicons"}
	fset := token.NewFileSet()
	imp := importer.ForCompiler(fset, "source", nil)
	var entries []fpEntry
	banned := []string{}
	for _, rel := range pkgs {
		dir := filepath.Join(repo, rel)
		parsed, err := parser.ParseDir(fset, dir, func(fi os.FileInfo) bool {
			n := fi.Name()
			return !strings.HasSuffix(n, "_test.go") && !strings.HasPrefix(n, "verif_")
		}, 0)
		if err != nil {
			fmt.Fprintln(os.Stderr, "footprint:", err)
			os.Exit(1)
		}
		for name, p := range parsed {
			if strings.HasSuffix(name, "_test") {
				continue
			}
			var files []*ast.File
			for _, f := range p.Files {
				files = append(files, f)
				for _, im := range f.Imports {
					if im.Path.Value == `"unsafe"` || im.Path.Value == `"reflect"` {
						banned = append(banned, rel+":"+im.Path.Value)
					}
				}
			}
			sort.Slice(files, func(i, j int) bool {
				return fset.Position(files[i].Pos()).Filename < fset.Position(files[j].Pos()).Filename
			})
			conf := types.Config{Importer: imp, Error: func(err error) {}}
			info := &types.Info{Uses: map[*ast.Ident]types.Object{}, Defs: map[*ast.Ident]types.Object{}, Types: map[ast.Expr]types.TypeAndValue{}}
			path := "github.com/reactivego/ivg"
			if rel != "." {
				path += "/" + rel
			}
			tp, _ := conf.Check(path, fset, files, info)
			if tp == nil {
				fmt.Fprintln(os.Stderr, "footprint: type check failed for", rel)
				os.Exit(1)
			}
			isGlobal := func(id *ast.Ident) (string, bool) {
				obj := info.Uses[id]
				if obj == nil {
					obj = info.Defs[id]
				}
				v, ok := obj.(*types.Var)
				if !ok || v.IsField() {
					return "", false
				}
				if v.Parent() != nil && v.Parent() == v.Pkg().Scope() {
					return v.Pkg().Name() + "." + v.Name(), true
				}
				return "", false
			}
			isSharedParam := func(id *ast.Ident, fd *ast.FuncDecl) bool {
				obj := info.Uses[id]
				v, ok := obj.(*types.Var)
				if !ok {
					return false
				}
				// is it one of fd's parameters (not the receiver) of slice / pointer-to-array type?
				if fd.Type.Params == nil {
					return false
				}
				for _, fl := range fd.Type.Params.List {
					for _, n := range fl.Names {
						if info.Defs[n] == v {
							// input byte slices and caller-supplied palettes
							switch t := v.Type().Underlying().(type) {
							case *types.Slice:
								if b, ok := t.Elem().Underlying().(*types.Basic); ok && b.Kind() == types.Uint8 {
									return true
								}
							case *types.Pointer:
								if a, ok := t.Elem().Underlying().(*types.Array); ok {
									if n, ok := a.Elem().(*types.Named); ok && n.Obj().Name() == "RGBA" {
										return true
									}
								}
							}
						}
					}
				}
				return false
			}
			isSliceParam := func(id *ast.Ident, fd *ast.FuncDecl) bool {
				v, ok := info.Uses[id].(*types.Var)
				if !ok || fd.Type.Params == nil {
					return false
				}
				for _, fl := range fd.Type.Params.List {
					for _, n := range fl.Names {
						if info.Defs[n] == v {
							_, isSlice := v.Type().Underlying().(*types.Slice)
							return isSlice
						}
					}
				}
				return false
			}
			returnsTypeOf := func(id *ast.Ident, fd *ast.FuncDecl) bool {
				v, ok := info.Uses[id].(*types.Var)
				if !ok || fd.Type.Results == nil {
					return false
				}
				for _, fl := range fd.Type.Results.List {
					if types.Identical(info.TypeOf(fl.Type), v.Type()) {
						return true
					}
				}
				return false
			}
			for _, f := range files {
				for _, d := range f.Decls {
					fd, ok := d.(*ast.FuncDecl)
					if !ok || fd.Body == nil {
						continue
					}
					fname := fd.Name.Name
					if fd.Recv != nil && len(fd.Recv.List) > 0 {
						var sb strings.Builder
						ast.Inspect(fd.Recv.List[0].Type, func(n ast.Node) bool {
							if id, ok := n.(*ast.Ident); ok {
								sb.WriteString(id.Name)
							}
							return true
						})
						fname = sb.String() + "." + fname
					}
					ent := fpEntry{pkg: tp.Name(), fn: fname}
					gl := map[string]bool{}
					note := func(lhs ast.Expr, direct bool) {
						// direct assignment to a plain identifier only matters for globals;
						// element / field / pointer stores matter for globals and shared params
						id := rootIdent(lhs)
						if id == nil {
							return
						}
						if g, ok := isGlobal(id); ok {
							gl[g] = true
							return
						}
						if _, plain := lhs.(*ast.Ident); !plain && isSharedParam(id, fd) {
							// a store through x[i] / *x where x is a slice or *array parameter
							switch lhs.(type) {
							case *ast.IndexExpr, *ast.StarExpr:
								ent.paramStore = true
							}
						}
					}
					ast.Inspect(fd.Body, func(n ast.Node) bool {
						switch s := n.(type) {
						case *ast.AssignStmt:
							if s.Tok == token.DEFINE {
								return true
							}
							for _, l := range s.Lhs {
								note(l, true)
							}
							// x = global (or global[i:j]) where the global is a slice / map / pointer: the callee's
							// later writes through x would land in package-level memory
							for _, r := range s.Rhs {
								if rid := rootIdent(r); rid != nil {
									if g, ok := isGlobal(rid); ok {
										switch info.TypeOf(r).Underlying().(type) {
										case *types.Slice, *types.Map, *types.Pointer:
											gl[g+"(aliased)"] = true
										}
									}
								}
							}
						case *ast.IncDecStmt:
							note(s.X, true)
						case *ast.RangeStmt:
							if s.Tok == token.ASSIGN {
								if s.Key != nil {
									note(s.Key, true)
								}
								if s.Value != nil {
									note(s.Value, true)
								}
							}
						case *ast.UnaryExpr:
							// &global escapes: treat as a potential write
							if s.Op == token.AND {
								if id := rootIdent(s.X); id != nil {
									if g, ok := isGlobal(id); ok {
										gl[g+"(address taken)"] = true
									}
								}
							}
						case *ast.CallExpr:
							// copy(dst, ...) and append(global...) write through dst
							if id, ok := s.Fun.(*ast.Ident); ok && (id.Name == "copy") && len(s.Args) > 0 {
								if rid := rootIdent(s.Args[0]); rid != nil {
									if g, ok := isGlobal(rid); ok {
										gl[g] = true
									} else if isSharedParam(rid, fd) {
										ent.paramStore = true
									}
								}
							}
							// sort.Slice(p, ...), sort.Sort(p), slices.Sort(p) ...: an in-place permutation of the argument
							if se, ok := s.Fun.(*ast.SelectorExpr); ok && len(s.Args) > 0 {
								if pk, ok := se.X.(*ast.Ident); ok && (pk.Name == "sort" || pk.Name == "slices") &&
									(strings.HasPrefix(se.Sel.Name, "Sort") || strings.HasPrefix(se.Sel.Name, "Slice") ||
										strings.HasPrefix(se.Sel.Name, "Stable") || se.Sel.Name == "Reverse" || strings.HasPrefix(se.Sel.Name, "Float64s") ||
										strings.HasPrefix(se.Sel.Name, "Ints") || strings.HasPrefix(se.Sel.Name, "Strings")) {
									arg := s.Args[0]
									if cv, ok := arg.(*ast.CallExpr); ok && len(cv.Args) == 1 {
										arg = cv.Args[0] // sort.Sort(byOffset(stops))
									}
									if rid := rootIdent(arg); rid != nil {
										if g, ok := isGlobal(rid); ok {
											gl[g] = true
										} else if isSliceParam(rid, fd) {
											ent.paramStore = true
										}
									}
								}
							}
							// a global slice used as the first argument of append may have its backing array written
							if id, ok := s.Fun.(*ast.Ident); ok && id.Name == "append" && len(s.Args) > 0 {
								if rid := rootIdent(s.Args[0]); rid != nil {
									if g, ok := isGlobal(rid); ok {
										gl[g+"(append)"] = true
									} else if isSliceParam(rid, fd) && !(strings.HasPrefix(fd.Name.Name, "Append") && returnsTypeOf(rid, fd)) {
										// (an Append* function that returns the extended slice is the documented
										// append-to-destination idiom: the slice is an output, not an input)
										// append(param, ...) writes into the spare capacity of the caller's slice
										// (any element type, variadic parameters included)
										ent.paramStore = true
									}
								}
							}
							// pointer-receiver method call on a global
							if sel, ok := s.Fun.(*ast.SelectorExpr); ok {
								if rid := rootIdent(sel.X); rid != nil {
									if g, ok := isGlobal(rid); ok {
										if selInfo, ok := info.Uses[sel.Sel].(*types.Func); ok {
											if sig, ok := selInfo.Type().(*types.Signature); ok && sig.Recv() != nil {
												if _, isPtr := sig.Recv().Type().(*types.Pointer); isPtr {
													gl[g+"(pointer method)"] = true
												}
											}
										}
									}
								}
							}
						}
						return true
					})
					for g := range gl {
						ent.globals = append(ent.globals, g)
					}
					sort.Strings(ent.globals)
					entries = append(entries, ent)
				}
			}
		}
	}
	sort.Slice(entries, func(i, j int) bool {
		if entries[i].pkg != entries[j].pkg {
			return entries[i].pkg < entries[j].pkg
		}
		return entries[i].fn < entries[j].fn
	})
	var b strings.Builder
	b.WriteString("(* GENERATED from /repo by `harness -footprint` on every check run. Do not edit. *)\n")
	b.WriteString("From Coq Require Import String List Bool.\nImport ListNotations.\nLocal Open Scope string_scope.\n\n")
	b.WriteString("(* (package, function, package-level variables possibly written, stores through a slice / array-pointer parameter) *)\n")
	b.WriteString("Definition footprint : list (string * string * list string * bool) :=\n  [")
	for i, e := range entries {
		if i > 0 {
			b.WriteString(";\n   ")
		}
		var gs []string
		for _, g := range e.globals {
			gs = append(gs, `"`+g+`"`)
		}
		fmt.Fprintf(&b, `("%s", "%s", [%s], %v)`, e.pkg, e.fn, strings.Join(gs, "; "), e.paramStore)
	}
	b.WriteString("].\n\n")
	b.WriteString("Definition banned_imports : list string := [")
	for i, s := range banned {
		if i > 0 {
			b.WriteString("; ")
		}
		b.WriteString(`"` + strings.ReplaceAll(s, `"`, "") + `"`)
	}
	b.WriteString("].\n")
	fmt.Print(b.String())
}

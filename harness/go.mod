module verif/harness

go 1.17

require (
	github.com/reactivego/ivg v0.0.0
	golang.org/x/image v0.7.0
)

replace github.com/reactivego/ivg => /repo

//go:build verif

package main

// gosrc.go — a Go-to-Gallina translator for the pure, loop-free functions of /repo.
//
// `harness -gosrc /repo` type-checks the packages with go/types and prints coq/gen/GoSrc.v: one
// Gallina definition per listed Go function, produced from the function's AST as it is in the working
// tree NOW.  coq/proofs/GenEq.v proves that these definitions compute the same function as the
// hand-written model (coq/model), so the property theorems are re-checked by the kernel against what
// the source says on every run; a function the translator cannot handle is omitted (with the reason
// in a comment) and the theorems about it then fail to check.
//
// Supported subset: integer / boolean / float32 / float64 expressions (typed wrap-around made explicit
// with GoSem.wrapu / wraps, shifts by constants as * and / by a power of two, masks that are 2^k-1 as
// mod), conversions, constants (folded by go/types exactly as the compiler does), struct literals and
// field access of color.RGBA / ivg.Color / ivg.ViewBox, byte slices and fixed arrays as lists, indexing,
// len, append to the receiver buffer, calls to other listed functions, local closures, if / else, switch
// (tagged and tagless, with init, no fallthrough), multiple and named results, direct self-recursion
// (through explicit fuel).  No loops, goroutines, maps, interfaces, pointers other than the receiver
// buffer and read-only *[64]color.RGBA.  An index out of range (a Go panic) is NOT modelled: nth with a
// default is emitted (panics are the business of C02's model and of the correspondence run).

import (
	"fmt"
	"go/ast"
	"go/constant"
	"go/importer"
	"go/parser"
	"go/token"
	"go/types"
	"math"
	"math/big"
	"os"
	"path/filepath"
	"sort"
	"strings"
)

type gsPkg struct {
	rel   string
	files []*ast.File
	info  *types.Info
	tp    *types.Package
}

type gsTarget struct{ rel, recv, name string }

// the functions that are translated, in no particular order (the output is sorted by dependency)
var gsTargets = []gsTarget{
	{".", "", "RGBAColor"}, {".", "", "PaletteIndexColor"}, {".", "", "CRegColor"}, {".", "", "BlendColor"},
	{".", "Color", "rgba"}, {".", "Color", "paletteIndex"}, {".", "Color", "cReg"}, {".", "Color", "blend"},
	{".", "Color", "RGBA"}, {".", "Color", "Resolve"}, {".", "", "DecodeColor1"},
	{".", "", "Is1"}, {".", "", "Is2"}, {".", "", "Is3"}, {".", "", "ValidAlphaPremulColor"}, {".", "", "ValidGradient"},
	{".", "", "EncodeGradient"}, {".", "", "DecodeGradient"},
	{".", "Color", "Is1"}, {".", "Color", "Encode1"}, {".", "Color", "Is2"}, {".", "Color", "Encode2"},
	{".", "Color", "Is3"}, {".", "Color", "Encode3Direct"}, {".", "Color", "Encode4"}, {".", "Color", "Encode3Indirect"},
	{".", "ViewBox", "Size"}, {".", "ViewBox", "AspectMeet"}, {".", "ViewBox", "AspectSlice"},
	{"encode", "buffer", "encodeNatural"}, {"encode", "buffer", "encode4ByteReal"},
	{"encode", "buffer", "encodeReal"}, {"encode", "buffer", "encodeCoordinate"}, {"encode", "buffer", "encodeZeroToOne"},
	{"encode", "buffer", "encodeAngle"},
	{"encode", "buffer", "encodeColor1"}, {"encode", "buffer", "encodeColor2"}, {"encode", "buffer", "encodeColor3Direct"},
	{"encode", "buffer", "encodeColor4"}, {"encode", "buffer", "encodeColor3Indirect"},
	{"decode", "buffer", "decodeNatural"}, {"decode", "buffer", "decodeReal"}, {"decode", "buffer", "decodeCoordinate"},
	{"decode", "buffer", "decodeZeroToOne"},
	{"decode", "buffer", "decodeColor1"}, {"decode", "buffer", "decodeColor2"}, {"decode", "buffer", "decodeColor3Direct"},
	{"decode", "buffer", "decodeColor4"}, {"decode", "buffer", "decodeColor3Indirect"},
	{"render", "Spread", "Clamp"},
	{"generate", "", "Translate"}, {"generate", "", "MulAff3"},
	{"decode", "", "isNaNOrInfinity"},
	{"generate", "", "Scale"}, {"generate", "", "Concat"},
	{"render", "Renderer", "CSel"}, {"render", "Renderer", "NSel"}, {"render", "Renderer", "SetCSel"}, {"render", "Renderer", "SetNSel"},
	{"render", "Renderer", "SetLOD"}, {"render", "Renderer", "SetCReg"}, {"render", "Renderer", "SetNReg"},
	{"render", "Renderer", "absX"}, {"render", "Renderer", "absY"}, {"render", "Renderer", "relX"}, {"render", "Renderer", "relY"},
	{"render", "Renderer", "unabsX"}, {"render", "Renderer", "unabsY"}, {"render", "Renderer", "absVec2"},
	{"encode", "Encoder", "quantize"},
}

type gsFn struct {
	t       gsTarget
	pkg     *gsPkg
	decl    *ast.FuncDecl
	obj     *types.Func
	coq     string
	deps    map[string]bool
	selfRec bool
	text    string
	err     string
	fParams []string // f_<field> parameters (sorted), fields read or written through the receiver
	fOut    []string // f_<field> results (sorted), fields written
}

type gsErr struct{ msg string }

func gsFail(format string, a ...interface{}) { panic(gsErr{fmt.Sprintf(format, a...)}) }

type gsCtx struct {
	fn     *gsFn
	all    map[string]*gsFn
	names  map[types.Object]string
	used   map[string]bool
	recvB  types.Object // the *buffer receiver, if any (then the function returns the new buffer first)
	ptrRcv bool
	named  []types.Object // named results
	nres   int
	fuel   string // current fuel variable when inside a self-recursive function
	// a receiver of a struct type that is not modelled as a record (Renderer, Encoder): the fields the
	// function reads become leading parameters f_<field>, the fields it assigns are returned first
	fieldRecv types.Object
	fRead     map[string]bool
	fWritten  map[string]bool
	fTypes    map[string]string
	// inside the body of a translated range loop: what falling off the end of the body yields, and no return allowed
	loopRet string
}

func gsLoad(repo string) map[string]*gsPkg {
	rels := []string{".", "encode", "decode", "render", "generate"}
	fset := token.NewFileSet()
	imp := importer.ForCompiler(fset, "source", nil)
	out := map[string]*gsPkg{}
	for _, rel := range rels {
		dir := filepath.Join(repo, rel)
		parsed, err := parser.ParseDir(fset, dir, func(fi os.FileInfo) bool {
			n := fi.Name()
			return !strings.HasSuffix(n, "_test.go") && !strings.HasPrefix(n, "verif_")
		}, 0)
		if err != nil {
			fmt.Fprintln(os.Stderr, "gosrc:", err)
			os.Exit(1)
		}
		for name, p := range parsed {
			if strings.HasSuffix(name, "_test") {
				continue
			}
			var files []*ast.File
			for _, f := range p.Files {
				files = append(files, f)
			}
			sort.Slice(files, func(i, j int) bool {
				return fset.Position(files[i].Pos()).Filename < fset.Position(files[j].Pos()).Filename
			})
			conf := types.Config{Importer: imp, Error: func(err error) {}}
			info := &types.Info{Uses: map[*ast.Ident]types.Object{}, Defs: map[*ast.Ident]types.Object{},
				Types: map[ast.Expr]types.TypeAndValue{}, Selections: map[*ast.SelectorExpr]*types.Selection{}}
			path := "github.com/reactivego/ivg"
			if rel != "." {
				path += "/" + rel
			}
			tp, _ := conf.Check(path, fset, files, info)
			if tp == nil {
				fmt.Fprintln(os.Stderr, "gosrc: type check failed for", rel)
				os.Exit(1)
			}
			out[rel] = &gsPkg{rel: rel, files: files, info: info, tp: tp}
		}
	}
	return out
}

func recvTypeName(fd *ast.FuncDecl) (string, bool) {
	if fd.Recv == nil || len(fd.Recv.List) == 0 {
		return "", false
	}
	t := fd.Recv.List[0].Type
	ptr := false
	if s, ok := t.(*ast.StarExpr); ok {
		t = s.X
		ptr = true
	}
	if id, ok := t.(*ast.Ident); ok {
		return id.Name, ptr
	}
	return "?", ptr
}

// ---- types ----

func namedName(t types.Type) string {
	if n, ok := t.(*types.Named); ok {
		return n.Obj().Name()
	}
	return ""
}

func isFloat(t types.Type) (string, bool) {
	if b, ok := t.Underlying().(*types.Basic); ok {
		switch b.Kind() {
		case types.Float32:
			return "F32", true
		case types.Float64, types.UntypedFloat:
			return "F64", true
		}
	}
	return "", false
}

// integer width and signedness
func intKind(t types.Type) (w int, signed bool, ok bool) {
	b, isb := t.Underlying().(*types.Basic)
	if !isb {
		return 0, false, false
	}
	switch b.Kind() {
	case types.Uint8:
		return 8, false, true
	case types.Uint16:
		return 16, false, true
	case types.Uint32:
		return 32, false, true
	case types.Uint64, types.Uint, types.Uintptr:
		return 64, false, true
	case types.Int8:
		return 8, true, true
	case types.Int16:
		return 16, true, true
	case types.Int32:
		return 32, true, true
	case types.Int64, types.Int, types.UntypedInt, types.UntypedRune:
		return 64, true, true
	}
	return 0, false, false
}

func isBool(t types.Type) bool {
	b, ok := t.Underlying().(*types.Basic)
	return ok && (b.Kind() == types.Bool || b.Kind() == types.UntypedBool)
}

var gsStructs = map[string]struct {
	ctor   string
	fields []string
	projs  []string
}{
	"RGBA":    {"mkRGBA", []string{"R", "G", "B", "A"}, []string{"cr", "cg", "cb", "ca"}},
	"Color":   {"mkGColor", []string{"typ", "data"}, []string{"gtyp", "gdata"}},
	"ViewBox": {"mkGVB", []string{"MinX", "MinY", "MaxX", "MaxY"}, []string{"vminx", "vminy", "vmaxx", "vmaxy"}},
}

func (c *gsCtx) zero(t types.Type) string {
	if _, ok := isFloat(t); ok {
		return "0"
	}
	if _, _, ok := intKind(t); ok {
		return "0"
	}
	if isBool(t) {
		return "false"
	}
	if n := namedName(t); n != "" {
		if s, ok := t.Underlying().(*types.Struct); ok {
			d, known := gsStructs[n]
			if !known {
				gsFail("struct type %s", n)
			}
			parts := []string{d.ctor}
			for i := 0; i < s.NumFields(); i++ {
				parts = append(parts, c.zero(s.Field(i).Type()))
			}
			return "(" + strings.Join(parts, " ") + ")"
		}
	}
	switch u := t.Underlying().(type) {
	case *types.Array:
		z := c.zero(u.Elem())
		parts := make([]string, u.Len())
		for i := range parts {
			parts[i] = z
		}
		return "[" + strings.Join(parts, "; ") + "]"
	case *types.Slice:
		return "[]"
	}
	gsFail("zero value of %s", t)
	return ""
}

// the Coq type of a Go type
func (c *gsCtx) coqType(t types.Type) string {
	if _, ok := isFloat(t); ok {
		return "Z"
	}
	if _, _, ok := intKind(t); ok {
		return "Z"
	}
	if isBool(t) {
		return "bool"
	}
	switch namedName(t) {
	case "RGBA":
		return "rgba"
	case "Color":
		return "gcolor"
	case "ViewBox":
		return "gviewbox"
	}
	switch u := t.Underlying().(type) {
	case *types.Array:
		return "(list " + c.coqType(u.Elem()) + ")"
	case *types.Slice:
		return "(list " + c.coqType(u.Elem()) + ")"
	case *types.Pointer:
		return c.coqType(u.Elem())
	}
	gsFail("type %s", t)
	return ""
}

func pow2(k int) string {
	return new(big.Int).Lsh(big.NewInt(1), uint(k)).String()
}

func gsZlit(v *big.Int) string {
	if v.Sign() < 0 {
		return "(" + v.String() + ")"
	}
	return v.String()
}

func (c *gsCtx) wrap(t types.Type, e string) string {
	w, signed, ok := intKind(t)
	if !ok {
		gsFail("wrap of non-integer %s", t)
	}
	if signed {
		return fmt.Sprintf("(wraps %d %s)", w, e)
	}
	return fmt.Sprintf("(wrapu %d %s)", w, e)
}

// ---- names ----

func (c *gsCtx) nameOf(o types.Object) string {
	if n, ok := c.names[o]; ok {
		return n
	}
	base := "v_" + o.Name()
	if o.Name() == "_" {
		base = "v_blank"
	}
	n := base
	for i := 1; c.used[n]; i++ {
		n = fmt.Sprintf("%s_%d", base, i)
	}
	c.used[n] = true
	c.names[o] = n
	return n
}

func (c *gsCtx) info() *types.Info { return c.fn.pkg.info }

func (c *gsCtx) objOf(id *ast.Ident) types.Object {
	if o := c.info().Defs[id]; o != nil {
		return o
	}
	return c.info().Uses[id]
}

// ---- expressions ----

func (c *gsCtx) constOf(e ast.Expr) (string, bool) {
	tv, ok := c.info().Types[e]
	if !ok || tv.Value == nil {
		return "", false
	}
	t := tv.Type
	if isBool(t) {
		if constant.BoolVal(tv.Value) {
			return "true", true
		}
		return "false", true
	}
	if f, ok := isFloat(t); ok {
		if f == "F32" {
			v, _ := constant.Float32Val(tv.Value)
			return fmt.Sprintf("%d", math.Float32bits(v)), true
		}
		v, _ := constant.Float64Val(tv.Value)
		return fmt.Sprintf("%d", math.Float64bits(v)), true
	}
	if _, _, ok := intKind(t); ok {
		v := constant.ToInt(tv.Value)
		if v.Kind() != constant.Int {
			return "", false
		}
		bi, ok := new(big.Int).SetString(v.ExactString(), 10)
		if !ok {
			return "", false
		}
		return gsZlit(bi), true
	}
	return "", false
}

func (c *gsCtx) constInt(e ast.Expr) (*big.Int, bool) {
	tv, ok := c.info().Types[e]
	if !ok || tv.Value == nil {
		return nil, false
	}
	v := constant.ToInt(tv.Value)
	if v.Kind() != constant.Int {
		return nil, false
	}
	bi, ok := new(big.Int).SetString(v.ExactString(), 10)
	return bi, ok
}

func (c *gsCtx) eq(t types.Type, a, b string) string {
	if f, ok := isFloat(t); ok {
		return fmt.Sprintf("(feq %s %s %s)", f, a, b)
	}
	if _, _, ok := intKind(t); ok {
		return fmt.Sprintf("(%s =? %s)", a, b)
	}
	if isBool(t) {
		return fmt.Sprintf("(Bool.eqb %s %s)", a, b)
	}
	if namedName(t) == "RGBA" {
		return fmt.Sprintf("(rgba_eqb %s %s)", a, b)
	}
	gsFail("equality at type %s", t)
	return ""
}

func (c *gsCtx) expr(e ast.Expr) string {
	if s, ok := c.constOf(e); ok {
		return s
	}
	info := c.info()
	switch v := e.(type) {
	case *ast.ParenExpr:
		return c.expr(v.X)
	case *ast.Ident:
		switch v.Name {
		case "true", "false":
			return v.Name
		}
		o := c.objOf(v)
		switch ov := o.(type) {
		case *types.Var:
			if ov.Parent() != nil && ov.Pkg() != nil && ov.Parent() == ov.Pkg().Scope() {
				return c.global(ov)
			}
			return c.nameOf(o)
		}
		gsFail("identifier %s", v.Name)
	case *ast.StarExpr:
		// only *b for the receiver buffer
		if id, ok := v.X.(*ast.Ident); ok && c.objOf(id) == c.recvB && c.ptrRcv {
			return c.nameOf(c.recvB)
		}
		gsFail("pointer dereference")
	case *ast.UnaryExpr:
		t := info.TypeOf(e)
		if v.Op == token.AND {
			// the address of a receiver field handed to a callee that only reads through it
			if sel, ok := v.X.(*ast.SelectorExpr); ok {
				if id, ok := sel.X.(*ast.Ident); ok && c.fieldRecv != nil && c.objOf(id) == c.fieldRecv {
					return c.expr(v.X)
				}
			}
			gsFail("address-of")
		}
		x := c.expr(v.X)
		switch v.Op {
		case token.NOT:
			return "(negb " + x + ")"
		case token.SUB:
			if f, ok := isFloat(t); ok {
				return fmt.Sprintf("(fneg %s %s)", f, x)
			}
			return c.wrap(t, "(- "+x+")")
		case token.ADD:
			return x
		case token.XOR:
			return c.wrap(t, "(Z.lnot "+x+")")
		}
		gsFail("unary operator %s", v.Op)
	case *ast.BinaryExpr:
		return c.binary(v)
	case *ast.CallExpr:
		r := c.call(v)
		return r
	case *ast.SelectorExpr:
		if sel, ok := info.Selections[v]; ok && sel.Kind() == types.FieldVal {
			if id, ok := v.X.(*ast.Ident); ok && c.fieldRecv != nil && c.objOf(id) == c.fieldRecv {
				c.fTypes[v.Sel.Name] = c.coqType(sel.Obj().Type()) // only fields of translatable types
				c.fRead[v.Sel.Name] = true
				return "f_" + v.Sel.Name
			}
			rt := sel.Recv()
			if p, ok := rt.(*types.Pointer); ok {
				rt = p.Elem()
			}
			d, known := gsStructs[namedName(rt)]
			if !known {
				gsFail("field of %s", rt)
			}
			for i, f := range d.fields {
				if f == v.Sel.Name {
					return fmt.Sprintf("(%s %s)", d.projs[i], c.expr(v.X))
				}
			}
			gsFail("field %s", v.Sel.Name)
		}
		if o, ok := info.Uses[v.Sel].(*types.Var); ok && o.Parent() == o.Pkg().Scope() {
			return c.global(o)
		}
		gsFail("selector %s", v.Sel.Name)
	case *ast.IndexExpr:
		xt := info.TypeOf(v.X)
		if p, ok := xt.Underlying().(*types.Pointer); ok {
			xt = p.Elem()
		}
		var et types.Type
		switch u := xt.Underlying().(type) {
		case *types.Array:
			et = u.Elem()
		case *types.Slice:
			et = u.Elem()
		default:
			gsFail("index into %s", xt)
		}
		idx := ""
		if bi, ok := c.constInt(v.Index); ok {
			idx = bi.String() + "%nat"
		} else {
			idx = "(Z.to_nat " + c.expr(v.Index) + ")"
		}
		return fmt.Sprintf("(nth %s %s %s)", idx, c.expr(v.X), c.zero(et))
	case *ast.CompositeLit:
		return c.composite(v)
	case *ast.FuncLit:
		sub := *c
		params := []string{}
		for _, fl := range v.Type.Params.List {
			for _, n := range fl.Names {
				params = append(params, sub.nameOf(info.Defs[n]))
			}
		}
		sub.recvB, sub.named, sub.nres = nil, nil, v.Type.Results.NumFields()
		body := sub.stmts(v.Body.List, nil)
		return "(fun " + strings.Join(params, " ") + " => " + body + ")"
	}
	gsFail("expression %T", e)
	return ""
}

func (c *gsCtx) global(o *types.Var) string {
	// package-level tables that Tables.v regenerates
	switch o.Pkg().Name() + "." + o.Name() {
	case "ivg.dc1Table":
		return "Tables.dc1Table"
	}
	gsFail("package-level variable %s.%s", o.Pkg().Name(), o.Name())
	return ""
}

func (c *gsCtx) composite(v *ast.CompositeLit) string {
	t := c.info().TypeOf(v)
	if n := namedName(t); n != "" {
		if st, ok := t.Underlying().(*types.Struct); ok {
			d, known := gsStructs[n]
			if !known {
				gsFail("struct literal %s", n)
			}
			vals := make([]string, st.NumFields())
			for i := range vals {
				vals[i] = c.zero(st.Field(i).Type())
			}
			for i, el := range v.Elts {
				if kv, ok := el.(*ast.KeyValueExpr); ok {
					k := kv.Key.(*ast.Ident).Name
					found := false
					for j, f := range d.fields {
						if f == k {
							vals[j] = c.expr(kv.Value)
							found = true
						}
					}
					if !found {
						gsFail("field %s of %s", k, n)
					}
				} else {
					vals[i] = c.expr(el)
				}
			}
			return "(" + d.ctor + " " + strings.Join(vals, " ") + ")"
		}
	}
	if a, ok := t.Underlying().(*types.Array); ok {
		vals := make([]string, a.Len())
		for i := range vals {
			vals[i] = c.zero(a.Elem())
		}
		for i, el := range v.Elts {
			if _, ok := el.(*ast.KeyValueExpr); ok {
				gsFail("keyed array literal")
			}
			vals[i] = c.expr(el)
		}
		return "[" + strings.Join(vals, "; ") + "]"
	}
	gsFail("composite literal of %s", t)
	return ""
}

func (c *gsCtx) binary(v *ast.BinaryExpr) string {
	info := c.info()
	t := info.TypeOf(v)
	xt := info.TypeOf(v.X)
	switch v.Op {
	case token.LAND:
		return "(" + c.expr(v.X) + " && " + c.expr(v.Y) + ")"
	case token.LOR:
		return "(" + c.expr(v.X) + " || " + c.expr(v.Y) + ")"
	}
	// shifts: constant counts only
	if v.Op == token.SHL || v.Op == token.SHR {
		k, ok := c.constInt(v.Y)
		if !ok || k.Sign() < 0 || k.BitLen() > 7 {
			gsFail("shift by a non-constant")
		}
		x := c.expr(v.X)
		if v.Op == token.SHL {
			return c.wrap(t, fmt.Sprintf("(%s * %s)", x, pow2(int(k.Int64()))))
		}
		return fmt.Sprintf("(%s / %s)", x, pow2(int(k.Int64())))
	}
	x, y := c.expr(v.X), c.expr(v.Y)
	// comparisons
	switch v.Op {
	case token.EQL:
		return c.eq(xt, x, y)
	case token.NEQ:
		return "(negb " + c.eq(xt, x, y) + ")"
	case token.LSS, token.LEQ, token.GTR, token.GEQ:
		if f, ok := isFloat(xt); ok {
			op := map[token.Token]string{token.LSS: "flt", token.LEQ: "fle", token.GTR: "fgt", token.GEQ: "fge"}[v.Op]
			return fmt.Sprintf("(%s %s %s %s)", op, f, x, y)
		}
		op := map[token.Token]string{token.LSS: "<?", token.LEQ: "<=?", token.GTR: ">?", token.GEQ: ">=?"}[v.Op]
		return fmt.Sprintf("(%s %s %s)", x, op, y)
	}
	if f, ok := isFloat(t); ok {
		op := map[token.Token]string{token.ADD: "fadd", token.SUB: "fsub", token.MUL: "fmul", token.QUO: "fdiv"}[v.Op]
		if op == "" {
			gsFail("float operator %s", v.Op)
		}
		return fmt.Sprintf("(%s %s %s %s)", op, f, x, y)
	}
	w, signed, ok := intKind(t)
	if !ok {
		gsFail("operator %s at type %s", v.Op, t)
	}
	switch v.Op {
	case token.ADD:
		return c.wrap(t, "("+x+" + "+y+")")
	case token.SUB:
		return c.wrap(t, "("+x+" - "+y+")")
	case token.MUL:
		return c.wrap(t, "("+x+" * "+y+")")
	case token.QUO:
		if signed {
			return c.wrap(t, "(Z.quot "+x+" "+y+")")
		}
		return "(" + x + " / " + y + ")"
	case token.REM:
		if signed {
			return "(Z.rem " + x + " " + y + ")"
		}
		return "(" + x + " mod " + y + ")"
	case token.AND:
		// a mask 2^k-1 is mod 2^k; a mask 2^w-2^k clears the low k bits
		for _, side := range []struct {
			m     ast.Expr
			other string
		}{{v.Y, x}, {v.X, y}} {
			if m, ok := c.constInt(side.m); ok && m.Sign() >= 0 {
				m1 := new(big.Int).Add(m, big.NewInt(1))
				if m1.BitLen() > 0 && new(big.Int).And(m1, m).Sign() == 0 { // m+1 is a power of two
					return "(" + side.other + " mod " + m1.String() + ")"
				}
				if m.Sign() > 0 && new(big.Int).And(m, new(big.Int).Sub(m, big.NewInt(1))).Sign() == 0 { // a single bit
					return fmt.Sprintf("(%s / %s mod 2 * %s)", side.other, m.String(), m.String())
				}
				if !signed {
					full := new(big.Int).Lsh(big.NewInt(1), uint(w))
					low := new(big.Int).Sub(full, m) // 2^w - m = 2^k ?
					if low.Sign() > 0 && new(big.Int).And(low, new(big.Int).Sub(low, big.NewInt(1))).Sign() == 0 {
						return fmt.Sprintf("(%s / %s * %s)", side.other, low.String(), low.String())
					}
				}
			}
		}
		return "(Z.land " + x + " " + y + ")"
	case token.OR:
		return "(Z.lor " + x + " " + y + ")"
	case token.XOR:
		return c.wrap(t, "(Z.lxor "+x+" "+y+")")
	case token.AND_NOT:
		return "(Z.ldiff " + x + " " + y + ")"
	}
	gsFail("operator %s", v.Op)
	return ""
}

func (c *gsCtx) conversion(to types.Type, arg ast.Expr) string {
	from := c.info().TypeOf(arg)
	x := c.expr(arg)
	if ff, ok := isFloat(to); ok {
		if fs, ok := isFloat(from); ok {
			if fs == ff {
				return x
			}
			if fs == "F32" {
				return "(f32_to_f64 " + x + ")"
			}
			return "(f64_to_f32 " + x + ")"
		}
		if _, _, ok := intKind(from); ok {
			return fmt.Sprintf("(of_Z %s %s)", ff, x)
		}
		gsFail("conversion %s -> %s", from, to)
	}
	if w, signed, ok := intKind(to); ok {
		if fs, ok := isFloat(from); ok {
			// amd64: CVTTSS2SQ / CVTTSD2SQ (to int64, "integer indefinite" when out of range), then truncation;
			// int32 uses the 32-bit form
			if w == 32 && signed {
				return fmt.Sprintf("(f2int 32 %s %s)", fs, x)
			}
			if w == 64 && !signed {
				gsFail("float to uint64 conversion")
			}
			r := fmt.Sprintf("(f2int 64 %s %s)", fs, x)
			if w == 64 {
				return r
			}
			return c.wrap(to, r)
		}
		if _, _, ok := intKind(from); ok {
			return c.wrap(to, x)
		}
		gsFail("conversion %s -> %s", from, to)
	}
	if types.Identical(to.Underlying(), from.Underlying()) {
		return x
	}
	gsFail("conversion %s -> %s", from, to)
	return ""
}

func (c *gsCtx) call(v *ast.CallExpr) string {
	info := c.info()
	if tv, ok := info.Types[v.Fun]; ok && tv.IsType() {
		if len(v.Args) != 1 {
			gsFail("conversion arity")
		}
		return c.conversion(tv.Type, v.Args[0])
	}
	args := []string{}
	for _, a := range v.Args {
		args = append(args, c.expr(a))
	}
	switch f := v.Fun.(type) {
	case *ast.Ident:
		switch o := c.objOf(f).(type) {
		case *types.Builtin:
			if o.Name() == "len" {
				return "(Z.of_nat (length " + args[0] + "))"
			}
			gsFail("builtin %s", o.Name())
		case *types.Func:
			return c.callFunc(o, "", args)
		case *types.Var:
			return "(" + c.nameOf(o) + " " + strings.Join(args, " ") + ")"
		}
	case *ast.SelectorExpr:
		if sel, ok := info.Selections[f]; ok && sel.Kind() == types.MethodVal {
			fo := sel.Obj().(*types.Func)
			if id, ok := f.X.(*ast.Ident); ok && c.fieldRecv != nil && c.objOf(id) == c.fieldRecv {
				return c.callFunc(fo, "?recv", args)
			}
			return c.callFunc(fo, c.expr(f.X), args)
		}
		if fo, ok := info.Uses[f.Sel].(*types.Func); ok {
			if fo.Pkg() != nil && fo.Pkg().Path() == "math" {
				switch fo.Name() {
				case "Float32bits", "Float32frombits", "Float64bits", "Float64frombits":
					return args[0]
				case "Floor":
					return "(ffloor F64 " + args[0] + ")"
				case "Sqrt":
					return "(fsqrt F64 " + args[0] + ")"
				}
				gsFail("math.%s", fo.Name())
			}
			return c.callFunc(fo, "", args)
		}
	}
	gsFail("call")
	return ""
}

func (c *gsCtx) callFunc(fo *types.Func, recv string, args []string) string {
	g, ok := c.all[fo.FullName()]
	if !ok {
		gsFail("call of %s, which is not translated", fo.FullName())
	}
	c.fn.deps[g.coq] = true
	parts := []string{g.coq}
	if g == c.fn {
		c.fn.selfRec = true
		parts = append(parts, c.fuel)
	} else if g.selfRec {
		parts = append(parts, "8%nat")
	}
	if g.decl != nil && g.decl.Recv != nil && !gsKnownRecv(g) {
		// a method of the same unmodelled struct: its field parameters are fields of our receiver too
		if c.fieldRecv == nil || recv != "?recv" {
			gsFail("call of method %s outside its receiver", g.t.name)
		}
		if len(g.fOut) > 0 {
			gsFail("call of %s, which assigns receiver fields", g.t.name)
		}
		for _, fp := range g.fParams {
			c.fRead[strings.TrimPrefix(fp, "f_")] = true
			parts = append(parts, fp)
		}
		recv = ""
	}
	if recv != "" {
		parts = append(parts, recv)
	}
	parts = append(parts, args...)
	return "(" + strings.Join(parts, " ") + ")"
}

// ---- statements (continuation-passing: `rest` is what follows in the enclosing lists) ----

type gsCont struct {
	list []ast.Stmt
	next *gsCont
}

func (c *gsCtx) ret(vals []string) string {
	if c.recvB != nil && c.ptrRcv {
		vals = append([]string{c.nameOf(c.recvB)}, vals...)
	}
	if len(c.fn.fOut) > 0 {
		vals = append(append([]string{}, c.fn.fOut...), vals...)
	}
	if len(vals) == 0 {
		return "tt"
	}
	if len(vals) == 1 {
		return vals[0]
	}
	return "(" + strings.Join(vals, ", ") + ")"
}

func (c *gsCtx) fallOff() string {
	if c.loopRet != "" {
		return c.loopRet
	}
	// end of the function body
	if len(c.named) > 0 {
		vals := []string{}
		for _, o := range c.named {
			vals = append(vals, c.nameOf(o))
		}
		return c.ret(vals)
	}
	if c.nres == 0 {
		return c.ret(nil)
	}
	gsFail("control reaches the end of a function with results")
	return ""
}

func (c *gsCtx) stmts(list []ast.Stmt, k *gsCont) string {
	if len(list) == 0 {
		if k == nil {
			return c.fallOff()
		}
		return c.stmts(k.list, k.next)
	}
	s, rest := list[0], list[1:]
	cont := func() string { return c.stmts(rest, k) }
	info := c.info()
	switch v := s.(type) {
	case *ast.RangeStmt:
		return c.rangeLoop(v) + cont()
	case *ast.ReturnStmt:
		if c.loopRet != "" {
			gsFail("return inside a loop")
		}
		if len(v.Results) == 0 {
			return c.fallOffNamed()
		}
		if len(v.Results) == 1 && c.nres > 1 {
			// return f(...) with a multi-value call
			return c.retCall(v.Results[0])
		}
		if len(v.Results) == 1 {
			if call, ok := v.Results[0].(*ast.CallExpr); ok && c.mutatingCall(call) {
				return c.retCall(call)
			}
		}
		vals := []string{}
		for _, r := range v.Results {
			vals = append(vals, c.expr(r))
		}
		return c.ret(vals)
	case *ast.BlockStmt:
		return c.stmts(v.List, &gsCont{rest, k})
	case *ast.EmptyStmt:
		return cont()
	case *ast.ExprStmt:
		if call, ok := v.X.(*ast.CallExpr); ok {
			if c.mutatingCall(call) {
				g, args := c.mutCall(call)
				pat := c.nameOf(c.recvB)
				if g.decl.Type.Results.NumFields() > 0 {
					pat = "'(" + pat + ", _)"
				}
				return fmt.Sprintf("let %s := %s in\n%s", pat, args, cont())
			}
			if id, ok := call.Fun.(*ast.Ident); ok {
				if b, ok := c.objOf(id).(*types.Builtin); ok && b.Name() == "panic" {
					return "go_panic_value (" + c.fallOffAny() + ")"
				}
			}
		}
		gsFail("expression statement")
	case *ast.IncDecStmt:
		t := info.TypeOf(v.X)
		op := " + 1"
		if v.Tok == token.DEC {
			op = " - 1"
		}
		return fmt.Sprintf("let %s := %s in\n%s", c.lhs(v.X), c.wrap(t, "("+c.expr(v.X)+op+")"), cont())
	case *ast.DeclStmt:
		gd, ok := v.Decl.(*ast.GenDecl)
		if !ok || gd.Tok != token.VAR {
			if ok && gd.Tok == token.CONST {
				return cont()
			}
			gsFail("declaration")
		}
		out := ""
		for _, sp := range gd.Specs {
			vs := sp.(*ast.ValueSpec)
			for i, n := range vs.Names {
				val := ""
				if i < len(vs.Values) {
					val = c.expr(vs.Values[i])
				} else {
					val = c.zero(info.Defs[n].Type())
				}
				out += fmt.Sprintf("let %s := %s in\n", c.nameOf(info.Defs[n]), val)
			}
		}
		return out + cont()
	case *ast.AssignStmt:
		return c.assign(v) + cont()
	case *ast.IfStmt:
		pre := ""
		if v.Init != nil {
			pre = c.simple(v.Init)
		}
		cond := c.expr(v.Cond)
		after := &gsCont{rest, k}
		thenS := c.stmts(v.Body.List, after)
		elseS := ""
		switch e := v.Else.(type) {
		case nil:
			elseS = c.stmts(nil, after)
		case *ast.BlockStmt:
			elseS = c.stmts(e.List, after)
		case *ast.IfStmt:
			elseS = c.stmts([]ast.Stmt{e}, after)
		}
		return fmt.Sprintf("%sif %s then (\n%s)\nelse (\n%s)", pre, cond, thenS, elseS)
	case *ast.SwitchStmt:
		pre := ""
		if v.Init != nil {
			pre = c.simple(v.Init)
		}
		after := &gsCont{rest, k}
		tag := ""
		var tagT types.Type
		if v.Tag != nil {
			tagT = info.TypeOf(v.Tag)
			tag = c.expr(v.Tag)
		}
		var dflt *ast.CaseClause
		out := ""
		closing := ""
		for _, cs := range v.Body.List {
			cc := cs.(*ast.CaseClause)
			for _, st := range cc.Body {
				if b, ok := st.(*ast.BranchStmt); ok && b.Tok == token.FALLTHROUGH {
					gsFail("fallthrough")
				}
			}
			if cc.List == nil {
				dflt = cc
				continue
			}
			conds := []string{}
			for _, x := range cc.List {
				if v.Tag != nil {
					conds = append(conds, c.eq(tagT, tag, c.expr(x)))
				} else {
					conds = append(conds, c.expr(x))
				}
			}
			out += fmt.Sprintf("if %s then (\n%s)\nelse (", strings.Join(conds, " || "), c.stmts(cc.Body, after))
			closing += ")"
		}
		if dflt != nil {
			out += c.stmts(dflt.Body, after)
		} else {
			out += c.stmts(nil, after)
		}
		return pre + out + closing
	}
	gsFail("statement %T", s)
	return ""
}

// for _, x := range xs { body }  where the body only assigns to ONE variable declared outside the loop
// (an accumulator):  let acc := fold_left (fun acc x => body) xs acc
func (c *gsCtx) rangeLoop(v *ast.RangeStmt) string {
	info := c.info()
	if v.Tok != token.DEFINE {
		gsFail("range loop without :=")
	}
	if k, ok := v.Key.(*ast.Ident); !ok || k.Name != "_" {
		gsFail("range loop with an index variable")
	}
	xv, ok := v.Value.(*ast.Ident)
	if !ok {
		gsFail("range loop without a value variable")
	}
	if _, ok := info.TypeOf(v.X).Underlying().(*types.Slice); !ok {
		gsFail("range over %s", info.TypeOf(v.X))
	}
	// the variables assigned in the body that are declared outside it
	var acc types.Object
	ast.Inspect(v.Body, func(n ast.Node) bool {
		switch st := n.(type) {
		case *ast.AssignStmt:
			for _, l := range st.Lhs {
				id, ok := l.(*ast.Ident)
				if !ok {
					gsFail("assignment target in a loop")
				}
				o := c.objOf(id)
				if o == nil || (o.Pos() >= v.Body.Pos() && o.Pos() <= v.Body.End()) {
					continue // declared inside the body
				}
				if acc != nil && acc != o {
					gsFail("loop with more than one accumulator")
				}
				acc = o
			}
		case *ast.IncDecStmt, *ast.BranchStmt, *ast.GoStmt, *ast.DeferStmt, *ast.ForStmt:
			gsFail("statement %T in a loop", n)
		}
		return true
	})
	if acc == nil {
		gsFail("loop without an accumulator")
	}
	an := c.nameOf(acc)
	xn := c.nameOf(info.Defs[xv])
	xs := c.expr(v.X)
	sub := *c
	sub.loopRet = an
	body := sub.stmts(v.Body.List, nil)
	return fmt.Sprintf("let %s := (fold_left (fun (%s : %s) (%s : %s) =>\n%s) %s %s) in\n",
		an, an, c.coqType(acc.Type()), xn, c.coqType(info.Defs[xv].Type()), body, xs, an)
}

func (c *gsCtx) fallOffNamed() string {
	if len(c.named) == 0 && c.nres > 0 {
		gsFail("bare return without named results")
	}
	return c.fallOff()
}

func (c *gsCtx) fallOffAny() string {
	// a value of the result type (used after panic, which the model does not represent)
	sig := c.fn.obj.Type().(*types.Signature)
	vals := []string{}
	for i := 0; i < sig.Results().Len(); i++ {
		vals = append(vals, c.zero(sig.Results().At(i).Type()))
	}
	return c.ret(vals)
}

// is this a call of a *buffer method on the receiver buffer (which returns the new buffer)?
func (c *gsCtx) mutatingCall(call *ast.CallExpr) bool {
	sel, ok := call.Fun.(*ast.SelectorExpr)
	if !ok || c.recvB == nil || !c.ptrRcv {
		return false
	}
	s, ok := c.info().Selections[sel]
	if !ok || s.Kind() != types.MethodVal {
		return false
	}
	id, ok := sel.X.(*ast.Ident)
	if !ok || c.objOf(id) != c.recvB {
		return false
	}
	g, ok := c.all[s.Obj().(*types.Func).FullName()]
	if !ok {
		gsFail("call of %s, which is not translated", s.Obj().Name())
	}
	_, ptr := recvTypeName(g.decl)
	return ptr
}

func (c *gsCtx) mutCall(call *ast.CallExpr) (*gsFn, string) {
	sel := call.Fun.(*ast.SelectorExpr)
	g := c.all[c.info().Selections[sel].Obj().(*types.Func).FullName()]
	args := []string{}
	for _, a := range call.Args {
		args = append(args, c.expr(a))
	}
	return g, c.callFunc(g.obj, c.nameOf(c.recvB), args)
}

func (c *gsCtx) retCall(e ast.Expr) string {
	call, ok := e.(*ast.CallExpr)
	if ok && c.mutatingCall(call) {
		_, s := c.mutCall(call)
		return s // already (buffer, results...)
	}
	if c.recvB != nil && c.ptrRcv {
		gsFail("multi-value return through a buffer method")
	}
	return c.expr(e)
}

func (c *gsCtx) lhs(e ast.Expr) string {
	switch v := e.(type) {
	case *ast.Ident:
		if v.Name == "_" {
			return "_"
		}
		return c.nameOf(c.objOf(v))
	case *ast.StarExpr:
		if id, ok := v.X.(*ast.Ident); ok && c.objOf(id) == c.recvB && c.ptrRcv {
			return c.nameOf(c.recvB)
		}
	case *ast.SelectorExpr:
		if id, ok := v.X.(*ast.Ident); ok && c.fieldRecv != nil && c.objOf(id) == c.fieldRecv {
			if sel, ok := c.info().Selections[v]; ok && sel.Kind() == types.FieldVal {
				c.fTypes[v.Sel.Name] = c.coqType(sel.Obj().Type())
				c.fWritten[v.Sel.Name] = true
				return "f_" + v.Sel.Name
			}
		}
	}
	gsFail("assignment target %T", e)
	return ""
}

func (c *gsCtx) simple(s ast.Stmt) string {
	switch v := s.(type) {
	case *ast.AssignStmt:
		return c.assign(v)
	}
	gsFail("init statement %T", s)
	return ""
}

func (c *gsCtx) assign(v *ast.AssignStmt) string {
	info := c.info()
	if v.Tok != token.ASSIGN && v.Tok != token.DEFINE {
		// op=
		if len(v.Lhs) != 1 {
			gsFail("op-assignment arity")
		}
		op := map[token.Token]token.Token{token.ADD_ASSIGN: token.ADD, token.SUB_ASSIGN: token.SUB, token.MUL_ASSIGN: token.MUL,
			token.QUO_ASSIGN: token.QUO, token.REM_ASSIGN: token.REM, token.AND_ASSIGN: token.AND, token.OR_ASSIGN: token.OR,
			token.XOR_ASSIGN: token.XOR, token.SHL_ASSIGN: token.SHL, token.SHR_ASSIGN: token.SHR, token.AND_NOT_ASSIGN: token.AND_NOT}[v.Tok]
		be := &ast.BinaryExpr{X: v.Lhs[0], Op: op, Y: v.Rhs[0]}
		info.Types[be] = types.TypeAndValue{Type: info.TypeOf(v.Lhs[0])}
		return fmt.Sprintf("let %s := %s in\n", c.lhs(v.Lhs[0]), c.binary(be))
	}
	// *b = append(*b, e...)
	if len(v.Lhs) == 1 && len(v.Rhs) == 1 {
		if call, ok := v.Rhs[0].(*ast.CallExpr); ok {
			if id, ok := call.Fun.(*ast.Ident); ok {
				if b, ok := c.objOf(id).(*types.Builtin); ok && b.Name() == "append" {
					if call.Ellipsis != token.NoPos {
						gsFail("append with ...")
					}
					target := c.lhs(v.Lhs[0])
					src := c.expr(call.Args[0])
					if target != src {
						gsFail("append to another slice")
					}
					els := []string{}
					for _, a := range call.Args[1:] {
						els = append(els, c.expr(a))
					}
					return fmt.Sprintf("let %s := %s ++ [%s] in\n", target, src, strings.Join(els, "; "))
				}
			}
		}
	}
	if len(v.Rhs) == 1 && len(v.Lhs) > 1 {
		// multi-value call
		rhs := c.expr(v.Rhs[0])
		pats := []string{}
		for _, l := range v.Lhs {
			pats = append(pats, c.lhs(l))
		}
		return fmt.Sprintf("let '(%s) := %s in\n", strings.Join(pats, ", "), rhs)
	}
	if len(v.Lhs) != len(v.Rhs) {
		gsFail("assignment arity")
	}
	if len(v.Lhs) == 1 {
		if ix, ok := v.Lhs[0].(*ast.IndexExpr); ok {
			// z.f[i] = e  on an array field of the receiver
			if sel, ok := ix.X.(*ast.SelectorExpr); ok {
				if id, ok := sel.X.(*ast.Ident); ok && c.fieldRecv != nil && c.objOf(id) == c.fieldRecv {
					rhs := c.expr(v.Rhs[0])
					idx := c.expr(ix.Index)
					cur := c.expr(sel)
					name := c.lhs(sel)
					return fmt.Sprintf("let %s := (go_list_set %s %s %s) in\n", name, cur, idx, rhs)
				}
			}
			gsFail("element assignment")
		}
		rhs := c.expr(v.Rhs[0])
		return fmt.Sprintf("let %s := %s in\n", c.lhs(v.Lhs[0]), rhs)
	}
	// parallel assignment: evaluate all right-hand sides first
	rs := []string{}
	for _, r := range v.Rhs {
		rs = append(rs, c.expr(r))
	}
	pats := []string{}
	for _, l := range v.Lhs {
		pats = append(pats, c.lhs(l))
	}
	return fmt.Sprintf("let '(%s) := (%s) in\n", strings.Join(pats, ", "), strings.Join(rs, ", "))
}

// ---- driver ----

// receivers that are values of modelled types (records, the byte buffer, named integers)
func gsKnownRecv(g *gsFn) bool {
	switch g.t.recv {
	case "", "buffer", "Color", "ViewBox", "Spread":
		return true
	}
	return false
}

func (g *gsFn) translate(all map[string]*gsFn) {
	defer func() {
		if r := recover(); r != nil {
			if e, ok := r.(gsErr); ok {
				g.err = e.msg
				return
			}
			panic(r)
		}
	}()
	c := &gsCtx{fn: g, all: all, names: map[types.Object]string{}, used: map[string]bool{}, fuel: "fuel'"}
	info := g.pkg.info
	params := []string{}
	if g.decl.Recv != nil {
		_, ptr := recvTypeName(g.decl)
		names := g.decl.Recv.List[0].Names
		var ro types.Object
		if len(names) > 0 {
			ro = info.Defs[names[0]]
		}
		if !gsKnownRecv(g) {
			c.fieldRecv = ro
			c.fRead, c.fWritten, c.fTypes = map[string]bool{}, map[string]bool{}, map[string]string{}
			if ro == nil {
				c.fieldRecv = types.NewVar(token.NoPos, nil, "_", nil)
			}
		} else {
			if ptr {
				c.ptrRcv = true
				c.recvB = ro
			}
			if ro != nil {
				params = append(params, "("+c.nameOf(ro)+" : "+c.coqType(ro.Type())+")")
			} else {
				params = append(params, "_")
			}
		}
	}
	for _, fl := range g.decl.Type.Params.List {
		for _, n := range fl.Names {
			params = append(params, "("+c.nameOf(info.Defs[n])+" : "+c.coqType(info.Defs[n].Type())+")")
		}
	}
	pre := ""
	if g.decl.Type.Results != nil {
		for _, fl := range g.decl.Type.Results.List {
			if len(fl.Names) == 0 {
				c.nres++
			}
			for _, n := range fl.Names {
				c.nres++
				if n.Name == "_" {
					gsFail("blank named result")
				}
				o := info.Defs[n]
				c.named = append(c.named, o)
				pre += fmt.Sprintf("let %s := %s in\n", c.nameOf(o), c.zero(o.Type()))
			}
		}
	}
	body := pre + c.stmts(g.decl.Body.List, nil)
	if c.fieldRecv != nil {
		var fp, fo []string
		for f := range c.fRead {
			fp = append(fp, "f_"+f)
		}
		for f := range c.fWritten {
			fo = append(fo, "f_"+f)
			if !c.fRead[f] {
				fp = append(fp, "f_"+f)
			}
		}
		sort.Strings(fp)
		sort.Strings(fo)
		changed := strings.Join(fp, " ") != strings.Join(g.fParams, " ") || strings.Join(fo, " ") != strings.Join(g.fOut, " ")
		g.fParams, g.fOut = fp, fo
		if changed {
			// the results depend on the set of assigned fields: translate again with the sets known
			c2 := &gsCtx{fn: g, all: all, names: map[types.Object]string{}, used: map[string]bool{}, fuel: "fuel'"}
			_ = c2
			g.text = ""
			g.translate(all)
			return
		}
		typed := []string{}
		for _, fp := range g.fParams {
			ty, ok := c.fTypes[strings.TrimPrefix(fp, "f_")]
			if !ok {
				// read only through a callee: take the callee's word that it is translatable; Coq infers the type
				typed = append(typed, fp)
			} else {
				typed = append(typed, "("+fp+" : "+ty+")")
			}
		}
		params = append(typed, params...)
	}
	ps := ""
	if len(params) > 0 {
		ps = " " + strings.Join(params, " ")
	}
	if g.selfRec {
		zero := c.fallOffAny()
		g.text = fmt.Sprintf("Fixpoint %s (fuel : nat)%s {struct fuel} :=\nmatch fuel with\n| O => %s\n| S fuel' =>\n%s\nend.", g.coq, ps, zero, body)
	} else {
		g.text = fmt.Sprintf("Definition %s%s :=\n%s.", g.coq, ps, body)
	}
}

func gosrcMain(repo string) {
	pkgs := gsLoad(repo)
	all := map[string]*gsFn{}
	var fns []*gsFn
	for _, t := range gsTargets {
		p := pkgs[t.rel]
		var found *gsFn
		for _, f := range p.files {
			for _, d := range f.Decls {
				fd, ok := d.(*ast.FuncDecl)
				if !ok || fd.Body == nil || fd.Name.Name != t.name {
					continue
				}
				rn, _ := recvTypeName(fd)
				if rn != t.recv {
					continue
				}
				obj, _ := p.info.Defs[fd.Name].(*types.Func)
				name := "go_" + p.tp.Name() + "_"
				if t.recv != "" {
					name += t.recv + "_"
				}
				found = &gsFn{t: t, pkg: p, decl: fd, obj: obj, coq: name + t.name, deps: map[string]bool{}}
			}
		}
		if found == nil {
			fns = append(fns, &gsFn{t: t, coq: "go_" + t.rel + "_" + t.recv + "_" + t.name, err: "function not found in the source", deps: map[string]bool{}})
			continue
		}
		all[found.obj.FullName()] = found
		fns = append(fns, found)
	}
	// self-recursion must be known before callers are translated: translate twice
	for pass := 0; pass < 2; pass++ {
		for _, g := range fns {
			if g.decl == nil {
				continue
			}
			g.err, g.text = "", ""
			g.deps = map[string]bool{}
			g.translate(all)
		}
	}
	// a function that depends on an untranslatable one is untranslatable
	byName := map[string]*gsFn{}
	for _, g := range fns {
		byName[g.coq] = g
	}
	for changed := true; changed; {
		changed = false
		for _, g := range fns {
			if g.err != "" {
				continue
			}
			for d := range g.deps {
				if byName[d].err != "" {
					g.err = "depends on " + d
					changed = true
				}
			}
		}
	}
	// dependency order
	done := map[string]bool{}
	var order []*gsFn
	var visit func(g *gsFn)
	visit = func(g *gsFn) {
		if done[g.coq] {
			return
		}
		done[g.coq] = true
		ds := []string{}
		for d := range g.deps {
			ds = append(ds, d)
		}
		sort.Strings(ds)
		for _, d := range ds {
			if d != g.coq {
				visit(byName[d])
			}
		}
		order = append(order, g)
	}
	for _, g := range fns {
		visit(g)
	}
	fmt.Println("(* GENERATED from /repo's Go source by `harness -gosrc` on every check run. Do not edit. *)")
	fmt.Println("From Coq Require Import ZArith Bool List.")
	fmt.Println("From IVG Require Import SF NumCodec Color GoSem Tables.")
	fmt.Println("Import ListNotations.")
	fmt.Println("Local Open Scope Z_scope.")
	fmt.Println("Local Open Scope bool_scope.")
	fmt.Println()
	var okNames, badNames []string
	for _, g := range order {
		where := g.t.rel
		if where == "." {
			where = "ivg"
		}
		if g.err != "" {
			fmt.Printf("(* UNTRANSLATED %s (%s: %s.%s): %s *)\n\n", g.coq, where, g.t.recv, g.t.name, g.err)
			badNames = append(badNames, g.coq)
			continue
		}
		fmt.Printf("(* %s: %s %s *)\n%s\n\n", where, g.t.recv, g.t.name, g.text)
		okNames = append(okNames, g.coq)
	}
	fmt.Printf("(* translated: %d, untranslated: %d %s *)\n", len(okNames), len(badNames), strings.Join(badNames, " "))
}

//go:build verif

// Command harness runs case scripts against the real reactivego/ivg packages
// in /repo and prints canonical observables, one line per case.
package main

import (
	"bufio"
	"encoding/hex"
	"fmt"
	"math"
	"os"
	"strconv"
	"strings"
)

type handler func(args []string) string

var handlers = map[string]handler{}

func f32arg(s string) float32 {
	u, err := strconv.ParseUint(s, 16, 32)
	if err != nil {
		panic("bad f32 " + s)
	}
	return math.Float32frombits(uint32(u))
}

func f64arg(s string) float64 {
	u, err := strconv.ParseUint(s, 16, 64)
	if err != nil {
		panic("bad f64 " + s)
	}
	return math.Float64frombits(u)
}

func f32s(f float32) string { return fmt.Sprintf("%08x", math.Float32bits(f)) }
func f64s(f float64) string { return fmt.Sprintf("%016x", math.Float64bits(f)) }

func intarg(s string) int {
	i, err := strconv.Atoi(s)
	if err != nil {
		panic("bad int " + s)
	}
	return i
}

func hexarg(s string) []byte {
	if s == "-" {
		return []byte{}
	}
	if b, ok := sharedHex[s]; ok {
		return b
	}
	return hexargRaw(s)
}

func hexargRaw(s string) []byte {
	b, err := hex.DecodeString(s)
	if err != nil {
		panic("bad hex " + s)
	}
	return b
}

func hexs(b []byte) string {
	if len(b) == 0 {
		return "-"
	}
	return hex.EncodeToString(b)
}

func runCase(h handler, args []string) (out string) {
	defer func() {
		if r := recover(); r != nil {
			out = "PANIC " + strings.ReplaceAll(fmt.Sprint(r), "\n", " ")
		}
	}()
	return h(args)
}

func main() {
	if len(os.Args) >= 5 && os.Args[1] == "-race-run" {
		raceMain(intarg(os.Args[2]), intarg(os.Args[3]), int64(intarg(os.Args[4])))
		return
	}
	if len(os.Args) >= 3 && os.Args[1] == "-footprint" {
		footprintMain(os.Args[2])
		return
	}
	if len(os.Args) >= 3 && os.Args[1] == "-gosrc" {
		gosrcMain(os.Args[2])
		return
	}
	if len(os.Args) >= 3 && os.Args[1] == "-tables" {
		tablesMain(os.Args[2])
		return
	}
	in := bufio.NewReaderSize(os.Stdin, 1<<20)
	out := bufio.NewWriterSize(os.Stdout, 1<<20)
	defer out.Flush()
	// ivg.DestinationLogger prints to os.Stdout: send that to /dev/null
	if devnull, err := os.OpenFile(os.DevNull, os.O_WRONLY, 0); err == nil {
		os.Stdout = devnull
	}
	for {
		line, err := in.ReadString('\n')
		line = strings.TrimRight(line, "\n")
		if line != "" {
			f := strings.Fields(line)
			if len(f) >= 2 {
				h, ok := handlers[f[1]]
				if !ok {
					fmt.Fprintf(out, "%s UNKNOWN-KIND %s\n", f[0], f[1])
				} else {
					fmt.Fprintf(out, "%s %s\n", f[0], runCase(h, f[2:]))
				}
			}
		}
		if err != nil {
			break
		}
	}
}

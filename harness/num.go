//go:build verif

package main

import (
	"fmt"

	"github.com/reactivego/ivg/decode"
	"github.com/reactivego/ivg/encode"
)

func init() {
	handlers["EN"] = func(a []string) string {
		var v uint32
		fmt.Sscan(a[0], &v)
		return hexs(encode.VerifEncodeNatural(v))
	}
	handlers["ER"] = func(a []string) string { return hexs(encode.VerifEncodeReal(f32arg(a[0]))) }
	handlers["E4"] = func(a []string) string { return hexs(encode.VerifEncode4ByteReal(f32arg(a[0]))) }
	handlers["EC"] = func(a []string) string { return hexs(encode.VerifEncodeCoordinate(f32arg(a[0]))) }
	handlers["EZ"] = func(a []string) string { return hexs(encode.VerifEncodeZeroToOne(f32arg(a[0]))) }
	handlers["EA"] = func(a []string) string { return hexs(encode.VerifEncodeAngle(f32arg(a[0]))) }
	handlers["QZ"] = func(a []string) string {
		return f32s(encode.VerifQuantize(a[0] == "1", f32arg(a[1])))
	}
	handlers["DN"] = func(a []string) string {
		b := hexarg(a[0])
		u, n := decode.VerifDecodeNatural(b)
		if n == 0 {
			return "- 0"
		}
		return fmt.Sprintf("%d %d", u, n)
	}
	dec := func(f func([]byte) (float32, int)) handler {
		return func(a []string) string {
			b := hexarg(a[0])
			v, n := f(b)
			if n == 0 {
				return "- 0"
			}
			return fmt.Sprintf("%s %d", f32s(v), n)
		}
	}
	handlers["DR"] = dec(decode.VerifDecodeReal)
	handlers["DC"] = dec(decode.VerifDecodeCoordinate)
	handlers["DZ"] = dec(decode.VerifDecodeZeroToOne)
	// SetNReg through the public API: prints opcode and operand bytes.
	handlers["NR"] = func(a []string) string {
		var e encode.Encoder
		e.SetNReg(0, false, f32arg(a[0]))
		b, err := e.Bytes()
		if err != nil {
			return "ERR"
		}
		b = b[5:] // magic + metadata count
		return fmt.Sprintf("%d %s", b[0], hexs(b[1:]))
	}
}

//go:build verif

package main

import (
	"fmt"
	"sort"
	"strings"

	"github.com/reactivego/ivg/generate"
	"github.com/reactivego/ivg/mdicons"
	"golang.org/x/image/math/f32"
)

func transformsOfTok(t string) []generate.Aff3 {
	var out []generate.Aff3
	for _, s := range strings.Split(t, ";") {
		kv := strings.SplitN(s, ":", 2)
		v := strings.Split(kv[1], ",")
		switch kv[0] {
		case "T":
			out = append(out, generate.Translate(f32arg(v[0]), f32arg(v[1])))
		case "S":
			out = append(out, generate.Scale(f32arg(v[0]), f32arg(v[1])))
		case "M":
			out = append(out, generate.Aff3{f32arg(v[0]), f32arg(v[1]), f32arg(v[2]), f32arg(v[3]), f32arg(v[4]), f32arg(v[5])})
		default:
			panic("bad transform " + s)
		}
	}
	return out
}

func init() {
	handlers["SPD"] = func(a []string) string {
		rec := &recorder{}
		g := &generate.Generator{}
		g.SetDestination(rec)
		// a1 is a "/"-separated history of SetTransform calls ("-" = no arguments; a lone "-" = never called)
		if segs := strings.Split(a[1], "/"); len(segs) > 1 || segs[0] != "-" {
			for _, sg := range segs {
				if sg == "-" {
					g.SetTransform()
				} else {
					ts := transformsOfTok(sg)
					g.SetTransform(ts...)
					// the caller's slice is the caller's: what it does with it afterwards must not matter
					for k := range ts {
						ts[k] = generate.Aff3{}
					}
				}
			}
		}
		d := string(hexarg(a[2]))
		var err error
		outcome := "OK"
		func() {
			defer func() {
				if x := recover(); x != nil {
					outcome = "PANIC"
				}
			}()
			err = g.SetPathData(d, uint8(intarg(a[0])))
		}()
		if outcome != "PANIC" && err != nil {
			if e, ok := err.(generate.Error); ok && strings.HasPrefix(string(e), "ivg: unrecognized path data verb") {
				s := string(e)
				outcome = fmt.Sprintf("ERRVERB%d", s[len(s)-2])
			} else {
				outcome = "ERRNUM"
			}
		}
		return outcome + " | " + strings.Join(rec.toks, " ")
	}
	handlers["MDP"] = func(a []string) string {
		size, ox, oy, out := f32arg(a[0]), f32arg(a[1]), f32arg(a[2]), f32arg(a[3])
		adjs := map[float32]uint8{}
		var order []float32
		var outs []string
		t := a[4:]
		for i := 0; i+3 < len(t)+0 && t[i] == "P"; i += 4 {
			p := &mdicons.Path{}
			if t[i+1] != "-" {
				o := f32arg(t[i+1])
				p.Opacity = &o
			}
			if t[i+2] != "-" {
				p.D = string(hexarg(t[i+2]))
			}
			var circles []mdicons.Circle
			if t[i+3] != "-" {
				for _, c := range strings.Split(t[i+3], ";") {
					v := strings.Split(c, ",")
					circles = append(circles, mdicons.Circle{Cx: f32arg(v[0]), Cy: f32arg(v[1]), R: f32arg(v[2])})
				}
			}
			rec := &recorder{}
			before := len(adjs)
			err := mdicons.ParsePath(rec, p, adjs, size, f32.Vec2{ox, oy}, out, circles)
			if len(adjs) > before && p.Opacity != nil {
				order = append(order, *p.Opacity)
			}
			st := "ok"
			if err != nil {
				st = "ERR"
			}
			outs = append(outs, st+" "+strings.Join(rec.toks, " "))
		}
		var as []string
		// in insertion order (the register number is the rank)
		sort.SliceStable(order, func(i, j int) bool { return adjs[order[i]] < adjs[order[j]] })
		for _, k := range order {
			as = append(as, fmt.Sprintf("%s:%d", f32s(k), adjs[k]))
		}
		return strings.Join(outs, " ;; ") + " | adjs=" + strings.Join(as, ",")
	}
}

//go:build verif

package main

import (
	"github.com/reactivego/ivg/raster"
	"fmt"
	"image"
	"image/color"
	"strings"

	"github.com/reactivego/ivg"
	"github.com/reactivego/ivg/decode"
	"github.com/reactivego/ivg/encode"
	"github.com/reactivego/ivg/generate"
	"github.com/reactivego/ivg/render"
)

func parseStops(t []string, i, n int) ([]generate.GradientStop, int) {
	var stops []generate.GradientStop
	for k := 0; k < n; k++ {
		stops = append(stops, generate.GradientStop{Offset: f32arg(t[i]), Color: rgbaOfHex(t[i+1])})
		i += 2
	}
	return stops, i
}

// playHelper runs a generator helper starting at t[i] on destination d; returns next index (or -1) and the result string.
func playHelper(g *generate.Generator, t []string, i int) (int, string) {
	f := func(j int) float32 { return f32arg(t[i+j]) }
	var err error
	var next int
	switch t[i] {
	case "LG":
		stops, n := parseStops(t, i+7, intarg(t[i+6]))
		next = n
		err = g.SetLinearGradient(f(1), f(2), f(3), f(4), generate.GradientSpread(intarg(t[i+5])), stops)
	case "CG":
		stops, n := parseStops(t, i+7, intarg(t[i+6]))
		next = n
		err = g.SetCircularGradient(f(1), f(2), f(3), f(4), generate.GradientSpread(intarg(t[i+5])), stops)
	case "EG":
		stops, n := parseStops(t, i+9, intarg(t[i+8]))
		next = n
		err = g.SetEllipticalGradient(f(1), f(2), f(3), f(4), f(5), f(6), generate.GradientSpread(intarg(t[i+7])), stops)
	case "GG":
		stops, n := parseStops(t, i+10, intarg(t[i+9]))
		next = n
		err = g.SetGradient(generate.GradientShape(intarg(t[i+1])), generate.GradientSpread(intarg(t[i+2])), stops,
			generate.Aff3{f(3), f(4), f(5), f(6), f(7), f(8)})
	default:
		return -1, ""
	}
	switch err {
	case nil:
		return next, "g=ok"
	case generate.TooManyGradientStops:
		return next, "g=ERR1"
	case generate.CSELUsedAsBothGradientAndStop:
		return next, "g=ERR2"
	}
	return next, "g=ERR?" + strings.ReplaceAll(err.Error(), " ", "_")
}

func splitBar(t []string) ([]string, []string) {
	for i, x := range t {
		if x == "|" {
			return t[:i], t[i+1:]
		}
	}
	return t, nil
}

func playRenderer(r *render.Renderer, t []string) { playRendererOn(r, nil, t) }

// playRendererOn plays renderer tokens; "SR x0 y0 w h" is SetRasterizer(z, rect) in the middle of the script.
func playRendererOn(r *render.Renderer, z raster.Rasterizer, t []string) {
	for i := 0; i < len(t); {
		if t[i] == "SR" && z != nil {
			x0, y0, w, h := intarg(t[i+1]), intarg(t[i+2]), intarg(t[i+3]), intarg(t[i+4])
			r.SetRasterizer(z, image.Rect(x0, y0, x0+w, y0+h))
			i += 5
			continue
		}
		j := playCall(r, t, i)
		if j < 0 {
			switch t[i] {
			case "H0", "H1", "rc", "rn", "rl", "B":
				j = i + 1
			default:
				panic("bad token " + t[i])
			}
		}
		i = j
	}
}

func init() {
	handlers["FIT"] = func(a []string) string {
		vb := ivg.ViewBox{MinX: f32arg(a[1]), MinY: f32arg(a[2]), MaxX: f32arg(a[3]), MaxY: f32arg(a[4])}
		if len(a) == 5 {
			w, h := vb.Size()
			return f32s(w) + " " + f32s(h)
		}
		var x0, y0, x1, y1 float32
		if a[0] == "meet" {
			x0, y0, x1, y1 = vb.AspectMeet(f32arg(a[5]), f32arg(a[6]), f32arg(a[7]), f32arg(a[8]))
		} else {
			x0, y0, x1, y1 = vb.AspectSlice(f32arg(a[5]), f32arg(a[6]), f32arg(a[7]), f32arg(a[8]))
		}
		return f32s(x0) + " " + f32s(y0) + " " + f32s(x1) + " " + f32s(y1)
	}

	handlers["PIPE"] = func(a []string) string {
		x0, y0, w, h := intarg(a[0]), intarg(a[1]), intarg(a[2]), intarg(a[3])
		rect := image.Rect(x0, y0, x0+w, y0+h)
		t := a[4:]
		useLogger := false
		var tt []string
		for _, x := range t {
			if x == "LOG" {
				useLogger = true
			} else {
				tt = append(tt, x)
			}
		}
		t = tt
		z1 := &recRasterizer{}
		rd := &render.Renderer{}
		rd.SetRasterizer(z1, rect)
		enc := &encode.Encoder{}
		var dr, de ivg.Destination = rd, enc
		if useLogger {
			dr = &ivg.DestinationLogger{Destination: rd}
			de = &ivg.DestinationLogger{Destination: enc, Alt: true}
		}
		// one Generator per destination for the whole history (a Generator may keep state between helpers)
		gr, ge := &generate.Generator{}, &generate.Generator{}
		gr.SetDestination(dr)
		ge.SetDestination(de)
		var obs []string
		for i := 0; i < len(t); {
			if j, res := playHelper(gr, t, i); j >= 0 {
				obs = append(obs, res+"r")
				_, res2 := playHelper(ge, t, i)
				obs = append(obs, res2+"e")
				i = j
			} else {
				switch t[i] {
				case "H0":
					enc.HighResolutionCoordinates = false
					i++
				case "H1":
					enc.HighResolutionCoordinates = true
					i++
				case "rc":
					enc.CSel()
					i++
				case "rn":
					enc.NSel()
					i++
				case "rl":
					enc.LOD()
					i++
				case "B":
					enc.Bytes()
					i++
				case "ST":
					gr.SetTransform(transformsOfTok(t[i+1])...)
					ge.SetTransform(transformsOfTok(t[i+1])...)
					i += 2
				case "NEW":
					// what came before was an earlier use of the same Encoder and Renderer
					z1.log = nil
					i++
				default:
					j := playCall(dr, t, i)
					if j < 0 {
						panic("bad token " + t[i])
					}
					playCall(de, t, i)
					i = j
				}
			}
			obs = append(obs, fmt.Sprintf("%d,%d/%d,%d", enc.CSel(), enc.NSel(), rd.CSel(), rd.NSel()))
		}
		direct := strings.Join(z1.log, " ")
		var via string
		if b, err := enc.Bytes(); err != nil {
			via = "ENC" + encErr(err)
		} else {
			z2 := &recRasterizer{}
			r2 := &render.Renderer{}
			r2.SetRasterizer(z2, rect)
			var d2 ivg.Destination = r2
			if useLogger {
				d2 = &ivg.DestinationLogger{Destination: r2}
			}
			err := decode.Decode(d2, b)
			via = decOutcome(err) + " " + strings.Join(z2.log, " ")
		}
		s := strings.Join(obs, " ")
		if s != "" {
			s += " "
		}
		return s + "| " + direct + " | " + via
	}

	handlers["DREN"] = func(a []string) string {
		x0, y0, w, h := intarg(a[0]), intarg(a[1]), intarg(a[2]), intarg(a[3])
		b := hexarg(a[4])
		orig := append([]byte(nil), b...)
		// keep copies of option palettes to detect writes through them
		var pals []*[64]color.RGBA
		var keep [][64]color.RGBA
		opts := make([]decode.DecodeOption, 0, len(a)+4)
		for _, s := range a[5:] {
			if strings.HasPrefix(s, "OP:") {
				p := palOfTok(s[3:])
				pp := &p
				pals = append(pals, pp)
				keep = append(keep, p)
				opts = append(opts, decode.WithPalette(*pp))
			} else {
				opts = append(opts, optsOfToks([]string{s})...)
			}
		}
		z := &recRasterizer{}
		r := &render.Renderer{}
		r.SetRasterizer(z, image.Rect(x0, y0, x0+w, y0+h))
		err := decode.Decode(r, b, opts...)
		if string(orig) != string(b) {
			return "INPUT-MODIFIED"
		}
		for i := range pals {
			if *pals[i] != keep[i] {
				return "OPTION-PALETTE-MODIFIED"
			}
		}
		if spareModified(opts) {
			return "OPTIONS-SLICE-MODIFIED"
		}
		return decOutcome(err) + " " + strings.Join(z.log, " ")
	}

	handlers["REUSE"] = func(a []string) string {
		x0, y0, w, h := intarg(a[0]), intarg(a[1]), intarg(a[2]), intarg(a[3])
		rect := image.Rect(x0, y0, x0+w, y0+h)
		ta, tb := splitBar(a[4:])
		z := &recRasterizer{}
		r := &render.Renderer{}
		r.SetRasterizer(z, rect)
		playRendererOn(r, z, ta)
		z.log = nil
		// B may start with "SR x0 y0 w h": SetRasterizer with another rectangle before B (the fresh Renderer gets that one)
		if len(tb) >= 5 && tb[0] == "SR" {
			bx, by, bw, bh := intarg(tb[1]), intarg(tb[2]), intarg(tb[3]), intarg(tb[4])
			rect = image.Rect(bx, by, bx+bw, by+bh)
			r.SetRasterizer(z, rect)
			tb = tb[5:]
		}
		playRendererOn(r, z, tb)
		reused := strings.Join(z.log, " ") + fmt.Sprintf(" | cs=%d ns=%d", r.CSel(), r.NSel())
		z2 := &recRasterizer{}
		r2 := &render.Renderer{}
		r2.SetRasterizer(z2, rect)
		playRendererOn(r2, z2, tb)
		return reused + " || " + strings.Join(z2.log, " ") + fmt.Sprintf(" | cs=%d ns=%d", r2.CSel(), r2.NSel())
	}

	handlers["ESHARE"] = func(a []string) string {
		ta, tb := splitBar(a)
		e1 := &encode.Encoder{}
		playEnc(e1, ta)
		b1, _ := e1.Bytes()
		snap := string(b1)
		e2 := &encode.Encoder{}
		o2 := playEnc(e2, tb)
		b1b, _ := e1.Bytes()
		st := "A-STABLE"
		if string(b1b) != snap {
			st = "A-CHANGED"
		}
		return strings.Join(o2, " ") + " | " + st
	}

	handlers["EREUSE"] = func(a []string) string {
		ta, tb := splitBar(a)
		// run A, then B on the same Encoder; B alone on a fresh one
		e := &encode.Encoder{}
		playEnc(e, ta)
		o1 := playEnc(e, tb)
		o2 := playEnc(&encode.Encoder{}, tb)
		return strings.Join(o1, " ") + " || " + strings.Join(o2, " ")
	}
}

//go:build verif

package main

import (
	"bytes"
	"fmt"
	"image"
	"image/color"
	"image/draw"
	"strings"

	"github.com/reactivego/ivg/decode"
	"github.com/reactivego/ivg/raster/vec"
	"github.com/reactivego/ivg/render"
	"golang.org/x/image/vector"
)

// Pixel-level metamorphic checks for C16.  Pixels are not modelled in Coq: these
// handlers compare two renderings by the real code and print a verdict.

func newImage(kind string, w, h int) draw.Image {
	if kind == "alpha" {
		return image.NewAlpha(image.Rect(0, 0, w, h))
	}
	return image.NewRGBA(image.Rect(0, 0, w, h))
}

func pix(img draw.Image) []byte {
	switch m := img.(type) {
	case *image.RGBA:
		return m.Pix
	case *image.Alpha:
		return m.Pix
	}
	return nil
}

// background pattern as a function of coordinates relative to (ox, oy)
func fillPattern(img draw.Image, ox, oy int) {
	b := img.Bounds()
	for y := b.Min.Y; y < b.Max.Y; y++ {
		for x := b.Min.X; x < b.Max.X; x++ {
			lx, ly := x-ox, y-oy
			a := uint8(40 + ((lx*7 + ly*13) & 0x7f))
			img.Set(x, y, color.RGBA{uint8(int(a) * ((lx*3 + 5) & 0xff) / 255), uint8(int(a) * ((ly*5 + 1) & 0xff) / 255), a / 2, a})
		}
	}
}

func renderInto(img draw.Image, rect image.Rectangle, op draw.Op, t []string) {
	z := vec.NewRasterizer(img)
	z.DrawOp = op
	r := &render.Renderer{}
	r.SetRasterizer(z, rect)
	playRendererOn(r, z, t)
}

func subImagePix(img draw.Image, r image.Rectangle) []byte {
	var out []byte
	for y := r.Min.Y; y < r.Max.Y; y++ {
		for x := r.Min.X; x < r.Max.X; x++ {
			c := color.RGBAModel.Convert(img.At(x, y)).(color.RGBA)
			out = append(out, c.R, c.G, c.B, c.A)
		}
	}
	return out
}

// replayRasterizer records calls so that they can be replayed on a plain vector.Rasterizer
type replayOp struct {
	kind string
	a    [6]float32
	w, h int
	r    image.Rectangle
	src  image.Image
}

// DPIX <w> <h> <hex>: decode.Decode into a Renderer backed by the bundled raster/vec rasteriser drawing into a
// w x h image.RGBA; the outcome only (what matters is that it terminates without panicking)
func dpixCase(a []string) (out string) {
	w, h := intarg(a[0]), intarg(a[1])
	b := hexarg(a[2])
	defer func() {
		if x := recover(); x != nil {
			out = "PANIC " + strings.ReplaceAll(fmt.Sprint(x), " ", "_")
		}
	}()
	img := image.NewRGBA(image.Rect(0, 0, w, h))
	z := vec.NewRasterizer(img)
	r := &render.Renderer{}
	r.SetRasterizer(z, img.Bounds())
	return decOutcome(decode.Decode(r, b))
}

func init() {
	handlers["DPIX"] = dpixCase
	// PIXOFF <kind> <w> <h> <ox> <oy> <script>: own image vs offset inside a larger image
	handlers["PIXOFF"] = func(a []string) string {
		kind := a[0]
		w, h, ox, oy := intarg(a[1]), intarg(a[2]), intarg(a[3]), intarg(a[4])
		t := a[5:]
		own := newImage(kind, w, h)
		fillPattern(own, 0, 0)
		renderInto(own, image.Rect(0, 0, w, h), draw.Over, t)
		big := newImage(kind, w+ox+5, h+oy+7)
		fillPattern(big, ox, oy)
		before := newImage(kind, w+ox+5, h+oy+7)
		fillPattern(before, ox, oy)
		rect := image.Rect(ox, oy, ox+w, oy+h)
		renderInto(big, rect, draw.Over, t)
		var v []string
		if bytes.Equal(subImagePix(own, own.Bounds()), subImagePix(big, rect)) {
			v = append(v, "offset=same")
		} else {
			v = append(v, "offset=DIFFERENT")
		}
		outside := "outside=untouched"
		bb := big.Bounds()
		for y := bb.Min.Y; y < bb.Max.Y && outside == "outside=untouched"; y++ {
			for x := bb.Min.X; x < bb.Max.X; x++ {
				if image.Pt(x, y).In(rect) {
					continue
				}
				if big.At(x, y) != before.At(x, y) {
					outside = fmt.Sprintf("outside=MODIFIED@%d,%d", x, y)
					break
				}
			}
		}
		v = append(v, outside)
		return strings.Join(v, " ")
	}
	// PIXEQ <kind> <w> <h> <scriptA> | <scriptB>: two expressions of the same picture
	handlers["PIXEQ"] = func(a []string) string {
		kind := a[0]
		w, h := intarg(a[1]), intarg(a[2])
		ta, tb := splitBar(a[3:])
		ia, ib := newImage(kind, w, h), newImage(kind, w, h)
		fillPattern(ia, 0, 0)
		fillPattern(ib, 0, 0)
		renderInto(ia, ia.Bounds(), draw.Over, ta)
		renderInto(ib, ib.Bounds(), draw.Over, tb)
		if bytes.Equal(pix(ia), pix(ib)) {
			return "pixels=same"
		}
		n := 0
		pa, pb := pix(ia), pix(ib)
		for i := range pa {
			if pa[i] != pb[i] {
				n++
			}
		}
		return fmt.Sprintf("pixels=DIFFERENT(%d bytes)", n)
	}
	// PIXOP <kind> <w> <h> <script>: DrawOp=Src applies to the first drawn path only.
	// Oracle: record the rasteriser calls and replay them on a plain vector.Rasterizer with explicit operators.
	handlers["PIXOP"] = func(a []string) string {
		kind := a[0]
		w, h := intarg(a[1]), intarg(a[2])
		t := a[3:]
		got := newImage(kind, w, h)
		fillPattern(got, 0, 0)
		renderInto(got, got.Bounds(), draw.Src, t)
		// recording pass
		rec := &opRecorder{}
		r := &render.Renderer{}
		r.SetRasterizer(rec, image.Rect(0, 0, w, h))
		playRendererOn(r, rec, t)
		want := newImage(kind, w, h)
		fillPattern(want, 0, 0)
		var vz vector.Rasterizer
		first := true
		for _, o := range rec.ops {
			switch o.kind {
			case "reset":
				vz.Reset(o.w, o.h)
			case "m":
				vz.MoveTo(o.a[0], o.a[1])
			case "l":
				vz.LineTo(o.a[0], o.a[1])
			case "q":
				vz.QuadTo(o.a[0], o.a[1], o.a[2], o.a[3])
			case "c":
				vz.CubeTo(o.a[0], o.a[1], o.a[2], o.a[3], o.a[4], o.a[5])
			case "z":
				vz.ClosePath()
			case "d":
				if first {
					vz.DrawOp = draw.Src
				} else {
					vz.DrawOp = draw.Over
				}
				first = false
				vz.Draw(want, o.r, o.src, image.Point{})
			}
		}
		if bytes.Equal(pix(got), pix(want)) {
			return fmt.Sprintf("drawop=first-only paths=%d", rec.ndraw)
		}
		return fmt.Sprintf("drawop=WRONG paths=%d", rec.ndraw)
	}
}

type opRecorder struct {
	ops            []replayOp
	w, h           int
	penX, penY     float32
	firstX, firstY float32
	ndraw          int
}

func (z *opRecorder) Reset(w, h int) {
	z.w, z.h = w, h
	z.penX, z.penY, z.firstX, z.firstY = 0, 0, 0, 0
	z.ops = append(z.ops, replayOp{kind: "reset", w: w, h: h})
}
func (z *opRecorder) Size() image.Point       { return image.Point{z.w, z.h} }
func (z *opRecorder) Bounds() image.Rectangle { return image.Rect(0, 0, z.w, z.h) }
func (z *opRecorder) Pen() (x, y float32)     { return z.penX, z.penY }
func (z *opRecorder) MoveTo(ax, ay float32) {
	z.penX, z.penY, z.firstX, z.firstY = ax, ay, ax, ay
	z.ops = append(z.ops, replayOp{kind: "m", a: [6]float32{ax, ay}})
}
func (z *opRecorder) LineTo(bx, by float32) {
	z.penX, z.penY = bx, by
	z.ops = append(z.ops, replayOp{kind: "l", a: [6]float32{bx, by}})
}
func (z *opRecorder) QuadTo(bx, by, cx, cy float32) {
	z.penX, z.penY = cx, cy
	z.ops = append(z.ops, replayOp{kind: "q", a: [6]float32{bx, by, cx, cy}})
}
func (z *opRecorder) CubeTo(bx, by, cx, cy, dx, dy float32) {
	z.penX, z.penY = dx, dy
	z.ops = append(z.ops, replayOp{kind: "c", a: [6]float32{bx, by, cx, cy, dx, dy}})
}
func (z *opRecorder) ClosePath() {
	z.penX, z.penY = z.firstX, z.firstY
	z.ops = append(z.ops, replayOp{kind: "z"})
}
func (z *opRecorder) Draw(r image.Rectangle, src image.Image, sp image.Point) {
	z.ndraw++
	// copy the paint: the Renderer reuses its paint objects
	var cp image.Image
	switch p := src.(type) {
	case *image.Uniform:
		rr, g, b, a := p.C.RGBA()
		cp = image.NewUniform(color.RGBA64{uint16(rr), uint16(g), uint16(b), uint16(a)})
	case *render.Gradient:
		g := *p
		g.Ranges = append([]render.Range(nil), p.Ranges...)
		cp = &g
	default:
		cp = src
	}
	z.ops = append(z.ops, replayOp{kind: "d", r: r, src: cp})
}

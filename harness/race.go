//go:build verif

package main

import (
	"bufio"
	"fmt"
	"math/rand"
	"os"
	"runtime"
	"strings"
	"sync"
)

// Concurrency run (C18).  Built with -race.  Reads a case script, computes every case serially,
// then runs all cases from G goroutines (each K times, in its own shuffled order) with the
// input byte slices shared between goroutines, and compares with the serial results.

var sharedHex map[string][]byte // filled before the goroutines start; read-only afterwards

func raceMain(g, k int, seed int64) {
	in := bufio.NewReaderSize(os.Stdin, 1<<20)
	var lines [][]string
	for {
		line, err := in.ReadString('\n')
		f := strings.Fields(line)
		if len(f) >= 2 {
			lines = append(lines, f)
		}
		if err != nil {
			break
		}
	}
	// share the input byte slices
	sharedHex = map[string][]byte{}
	for _, f := range lines {
		for _, a := range f[2:] {
			if len(a) >= 8 && len(a)%2 == 0 && strings.HasPrefix(a, "89495647") {
				if _, ok := sharedHex[a]; !ok {
					sharedHex[a] = hexargRaw(a)
				}
			}
		}
	}
	keep := map[string]string{}
	for h, b := range sharedHex {
		keep[h] = string(b)
	}
	serial := make([]string, len(lines))
	for i, f := range lines {
		serial[i] = runCase(handlers[f[1]], f[2:])
	}
	runtime.GOMAXPROCS(g)
	var wg sync.WaitGroup
	var mu sync.Mutex
	var mismatch []string
	total := 0
	for w := 0; w < g; w++ {
		wg.Add(1)
		go func(w int) {
			defer wg.Done()
			r := rand.New(rand.NewSource(seed + int64(w)))
			n := 0
			for rep := 0; rep < k; rep++ {
				perm := r.Perm(len(lines))
				for _, i := range perm {
					f := lines[i]
					got := runCase(handlers[f[1]], f[2:])
					n++
					if got != serial[i] {
						mu.Lock()
						if len(mismatch) < 5 {
							mismatch = append(mismatch, fmt.Sprintf("case %s %s: concurrent %q serial %q", f[0], f[1], trunc(got), trunc(serial[i])))
						}
						mu.Unlock()
					}
				}
			}
			mu.Lock()
			total += n
			mu.Unlock()
		}(w)
	}
	wg.Wait()
	for h, b := range sharedHex {
		if keep[h] != string(b) {
			mismatch = append(mismatch, "shared input modified: "+h[:16])
		}
	}
	if len(mismatch) > 0 {
		fmt.Println("MISMATCH " + strings.Join(mismatch, " ;; "))
		os.Exit(3)
	}
	fmt.Printf("ok evaluations=%d goroutines=%d cases=%d shared_inputs=%d\n", total, g, len(lines), len(sharedHex))
}

func trunc(s string) string {
	if len(s) > 120 {
		return s[:120]
	}
	return s
}

//go:build verif

package main

import (
	"fmt"
	"image"
	"image/color"
	"math"
	"strings"

	"github.com/reactivego/ivg/raster"
	"github.com/reactivego/ivg/render"
)

// recRasterizer records the calls a Renderer makes and keeps the pen the way
// golang.org/x/image/vector does.
type recRasterizer struct {
	w, h           int
	penX, penY     float32
	firstX, firstY float32
	log            []string
	grads          []*gradSnapshot // one per Draw (nil for flat paints)
	pixels         [][2]int
	atOut          []string
}

type gradSnapshot struct{ g *render.Gradient }

func (z *recRasterizer) Reset(w, h int) {
	z.w, z.h = w, h
	z.penX, z.penY, z.firstX, z.firstY = 0, 0, 0, 0
	z.log = append(z.log, fmt.Sprintf("r%dx%d", w, h))
}
func (z *recRasterizer) Size() image.Point       { return image.Point{z.w, z.h} }
func (z *recRasterizer) Bounds() image.Rectangle { return image.Rect(0, 0, z.w, z.h) }
func (z *recRasterizer) Pen() (x, y float32)     { return z.penX, z.penY }
func (z *recRasterizer) MoveTo(ax, ay float32) {
	z.penX, z.penY, z.firstX, z.firstY = ax, ay, ax, ay
	z.log = append(z.log, "m "+f32s(ax)+" "+f32s(ay))
}
func (z *recRasterizer) LineTo(bx, by float32) {
	z.penX, z.penY = bx, by
	z.log = append(z.log, "l "+f32s(bx)+" "+f32s(by))
}
func (z *recRasterizer) QuadTo(bx, by, cx, cy float32) {
	z.penX, z.penY = cx, cy
	z.log = append(z.log, "q "+f32s(bx)+" "+f32s(by)+" "+f32s(cx)+" "+f32s(cy))
}
func (z *recRasterizer) CubeTo(bx, by, cx, cy, dx, dy float32) {
	z.penX, z.penY = dx, dy
	z.log = append(z.log, "c "+f32s(bx)+" "+f32s(by)+" "+f32s(cx)+" "+f32s(cy)+" "+f32s(dx)+" "+f32s(dy))
}
func (z *recRasterizer) ClosePath() {
	z.penX, z.penY = z.firstX, z.firstY
	z.log = append(z.log, "z")
}

func paintStr(src image.Image) string {
	switch p := src.(type) {
	case *image.Uniform:
		c, ok := p.C.(*color.RGBA)
		if !ok {
			if cc, ok2 := p.C.(color.RGBA); ok2 {
				return "F#" + hexOfRGBA(cc)
			}
			return fmt.Sprintf("F?%T", p.C)
		}
		return "F#" + hexOfRGBA(*c)
	}
	if g, ok := src.(raster.GradientConfig); ok {
		offs := g.StopOffsets()
		cols := g.StopColors()
		var st []string
		for i := range offs {
			c := color.RGBA{}
			if i < len(cols) {
				c = cols[i]
			}
			st = append(st, f64s(offs[i])+"#"+hexOfRGBA(c))
		}
		a, b, c, d, e, f := g.Transform()
		return fmt.Sprintf("G%d%d[%s](%s,%s,%s,%s,%s,%s)", g.GradientShape(), g.SpreadMethod(),
			strings.Join(st, ","), f64s(a), f64s(b), f64s(c), f64s(d), f64s(e), f64s(f))
	}
	return fmt.Sprintf("?paint:%T", src)
}

func (z *recRasterizer) Draw(r image.Rectangle, src image.Image, sp image.Point) {
	s := fmt.Sprintf("d %d,%d,%d,%d %s", r.Min.X, r.Min.Y, r.Max.X, r.Max.Y, paintStr(src))
	if sp != (image.Point{}) {
		s += fmt.Sprintf("@%d,%d", sp.X, sp.Y)
	}
	z.log = append(z.log, s)
	if z.pixels != nil {
		if g, ok := src.(*render.Gradient); ok {
			var parts []string
			for _, p := range z.pixels {
				r, gg, b, a := g.At(sp.X+p[0], sp.Y+p[1]).RGBA()
				parts = append(parts, fmt.Sprintf("%04x%04x%04x%04x", r, gg, b, a))
			}
			z.atOut = append(z.atOut, strings.Join(parts, ","))
		} else if u, ok := src.(*image.Uniform); ok {
			if c, ok := u.C.(*color.RGBA); ok {
				z.atOut = append(z.atOut, "flat#"+hexOfRGBA(*c))
			}
		}
	}
}

func runRen(a []string, pixels [][2]int) (*recRasterizer, *render.Renderer) {
	x0, y0, w, h := intarg(a[0]), intarg(a[1]), intarg(a[2]), intarg(a[3])
	z := &recRasterizer{pixels: pixels}
	r := &render.Renderer{}
	r.SetRasterizer(z, image.Rect(x0, y0, x0+w, y0+h))
	t := a[4:]
	for i := 0; i < len(t); {
		if t[i] == "COPY" {
			// the Renderer is a plain struct: a copy made after SetRasterizer is as good as the original
			nr := *r
			r = &nr
			i++
			continue
		}
		if t[i] == "SR" {
			// SetRasterizer again, in the middle of the script
			bx, by, bw, bh := intarg(t[i+1]), intarg(t[i+2]), intarg(t[i+3]), intarg(t[i+4])
			r.SetRasterizer(z, image.Rect(bx, by, bx+bw, by+bh))
			i += 5
			continue
		}
		j := playCall(r, t, i)
		if j < 0 {
			// encoder-only tokens are ignored by the renderer scripts
			switch t[i] {
			case "H0", "H1", "rc", "rn", "rl", "B":
				j = i + 1
			default:
				panic("bad token " + t[i])
			}
		}
		i = j
	}
	return z, r
}

func init() {
	handlers["REN"] = func(a []string) string {
		z, r := runRen(a, nil)
		return strings.Join(z.log, " ") + fmt.Sprintf(" | cs=%d ns=%d", r.CSel(), r.NSel())
	}
	handlers["GRAD"] = func(a []string) string {
		np := intarg(a[4])
		var pix [][2]int
		for _, s := range a[5 : 5+np] {
			xy := strings.Split(s, ",")
			pix = append(pix, [2]int{intarg(xy[0]), intarg(xy[1])})
		}
		if pix == nil {
			pix = [][2]int{}
		}
		b := append(append([]string{}, a[:4]...), a[5+np:]...)
		z, _ := runRen(b, pix)
		return strings.Join(z.atOut, " ")
	}
	handlers["CLAMP"] = func(a []string) string {
		return f64s(render.Spread(intarg(a[0])).Clamp(f64arg(a[1])))
	}
	handlers["TRIG"] = func(a []string) string {
		x := f64arg(a[1])
		switch a[0] {
		case "sin":
			return f64s(math.Sin(x))
		case "cos":
			return f64s(math.Cos(x))
		}
		return f64s(math.Acos(x))
	}
}

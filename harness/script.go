//go:build verif

package main

import (
	"fmt"
	"image/color"
	"strconv"
	"strings"

	"github.com/reactivego/ivg"
	"github.com/reactivego/ivg/decode"
	"github.com/reactivego/ivg/encode"
)

// ---- tokens <-> values ----

func rgbaOfHex(s string) color.RGBA {
	u, err := strconv.ParseUint(s, 16, 32)
	if err != nil || len(s) != 8 {
		panic("bad rgba " + s)
	}
	return color.RGBA{uint8(u >> 24), uint8(u >> 16), uint8(u >> 8), uint8(u)}
}

func hexOfRGBA(c color.RGBA) string { return fmt.Sprintf("%02x%02x%02x%02x", c.R, c.G, c.B, c.A) }

func colorOfTok(s string) ivg.Color {
	switch s[0] {
	case '#':
		return ivg.RGBAColor(rgbaOfHex(s[1:]))
	case 'p':
		return ivg.PaletteIndexColor(uint8(intarg(s[1:])))
	case 'c':
		return ivg.CRegColor(uint8(intarg(s[1:])))
	case 'b':
		u, err := strconv.ParseUint(s[1:], 16, 32)
		if err != nil {
			panic("bad blend " + s)
		}
		return ivg.BlendColor(uint8(u>>16), uint8(u>>8), uint8(u))
	}
	panic("bad color " + s)
}

func tokOfColor(c ivg.Color) string {
	if x, ok := c.Encode4(); ok {
		return "#" + hexOfRGBA(color.RGBA{x[0], x[1], x[2], x[3]})
	}
	if x, ok := c.Encode3Indirect(); ok {
		return fmt.Sprintf("b%02x%02x%02x", x[0], x[1], x[2])
	}
	if x, ok := c.Encode1(); ok {
		if x >= 0xc0 {
			return fmt.Sprintf("c%d", x-0xc0)
		}
		if x >= 0x80 {
			return fmt.Sprintf("p%d", x-0x80)
		}
	}
	return "?color"
}

var black = color.RGBA{0, 0, 0, 0xff}

func palOfTok(s string) (p [64]color.RGBA) {
	for i := range p {
		p[i] = black
	}
	if s == "-" {
		return
	}
	for _, e := range strings.Split(s, ",") {
		kv := strings.SplitN(e, ":", 2)
		p[intarg(kv[0])] = rgbaOfHex(kv[1])
	}
	return
}

func tokOfPal(p [64]color.RGBA) string {
	var parts []string
	for i, c := range p {
		if c != black {
			parts = append(parts, fmt.Sprintf("%d:%s", i, hexOfRGBA(c)))
		}
	}
	if len(parts) == 0 {
		return "-"
	}
	return strings.Join(parts, ",")
}

// ---- recording Destination ----

type recorder struct {
	toks       []string
	cSel, nSel uint8
}

func (r *recorder) add(t ...string) { r.toks = append(r.toks, t...) }
func b01(b bool) string {
	if b {
		return "1"
	}
	return "0"
}

func (r *recorder) Reset(vb ivg.ViewBox, pal [64]color.RGBA) {
	r.cSel, r.nSel = 0, 0
	r.add("R", f32s(vb.MinX), f32s(vb.MinY), f32s(vb.MaxX), f32s(vb.MaxY), tokOfPal(pal))
}
func (r *recorder) CSel() uint8     { return r.cSel }
func (r *recorder) NSel() uint8     { return r.nSel }
func (r *recorder) SetCSel(s uint8) { r.cSel = s & 0x3f; r.add("CS", strconv.Itoa(int(s))) }
func (r *recorder) SetNSel(s uint8) { r.nSel = s & 0x3f; r.add("NS", strconv.Itoa(int(s))) }
func (r *recorder) SetCReg(adj uint8, incr bool, c ivg.Color) {
	if incr {
		r.cSel = (r.cSel + 1) & 0x3f
	}
	r.add("CR", strconv.Itoa(int(adj)), b01(incr), tokOfColor(c))
}
func (r *recorder) SetNReg(adj uint8, incr bool, f float32) {
	if incr {
		r.nSel = (r.nSel + 1) & 0x3f
	}
	r.add("NR", strconv.Itoa(int(adj)), b01(incr), f32s(f))
}
func (r *recorder) SetLOD(a, b float32) { r.add("LOD", f32s(a), f32s(b)) }
func (r *recorder) StartPath(adj uint8, x, y float32) {
	r.add("SP", strconv.Itoa(int(adj)), f32s(x), f32s(y))
}
func (r *recorder) ClosePathEndPath()               { r.add("Z") }
func (r *recorder) ClosePathAbsMoveTo(x, y float32) { r.add("Y", f32s(x), f32s(y)) }
func (r *recorder) ClosePathRelMoveTo(x, y float32) { r.add("y", f32s(x), f32s(y)) }
func (r *recorder) AbsHLineTo(x float32)            { r.add("H", f32s(x)) }
func (r *recorder) RelHLineTo(x float32)            { r.add("h", f32s(x)) }
func (r *recorder) AbsVLineTo(y float32)            { r.add("V", f32s(y)) }
func (r *recorder) RelVLineTo(y float32)            { r.add("v", f32s(y)) }
func (r *recorder) AbsLineTo(x, y float32)          { r.add("L", f32s(x), f32s(y)) }
func (r *recorder) RelLineTo(x, y float32)          { r.add("l", f32s(x), f32s(y)) }
func (r *recorder) AbsSmoothQuadTo(x, y float32)    { r.add("T", f32s(x), f32s(y)) }
func (r *recorder) RelSmoothQuadTo(x, y float32)    { r.add("t", f32s(x), f32s(y)) }
func (r *recorder) AbsQuadTo(a, b, c, d float32)    { r.add("Q", f32s(a), f32s(b), f32s(c), f32s(d)) }
func (r *recorder) RelQuadTo(a, b, c, d float32)    { r.add("q", f32s(a), f32s(b), f32s(c), f32s(d)) }
func (r *recorder) AbsSmoothCubeTo(a, b, c, d float32) {
	r.add("S", f32s(a), f32s(b), f32s(c), f32s(d))
}
func (r *recorder) RelSmoothCubeTo(a, b, c, d float32) {
	r.add("s", f32s(a), f32s(b), f32s(c), f32s(d))
}
func (r *recorder) AbsCubeTo(a, b, c, d, e, f float32) {
	r.add("C", f32s(a), f32s(b), f32s(c), f32s(d), f32s(e), f32s(f))
}
func (r *recorder) RelCubeTo(a, b, c, d, e, f float32) {
	r.add("c", f32s(a), f32s(b), f32s(c), f32s(d), f32s(e), f32s(f))
}
func flagTok(large, sweep bool) string {
	n := 0
	if large {
		n |= 1
	}
	if sweep {
		n |= 2
	}
	return strconv.Itoa(n)
}
func (r *recorder) AbsArcTo(rx, ry, rot float32, large, sweep bool, x, y float32) {
	r.add("A", f32s(rx), f32s(ry), f32s(rot), flagTok(large, sweep), f32s(x), f32s(y))
}
func (r *recorder) RelArcTo(rx, ry, rot float32, large, sweep bool, x, y float32) {
	r.add("a", f32s(rx), f32s(ry), f32s(rot), flagTok(large, sweep), f32s(x), f32s(y))
}

// ---- driving a Destination from tokens ----

func arity(k string) int {
	switch k {
	case "H", "h", "V", "v":
		return 1
	case "L", "l", "T", "t", "Y", "y":
		return 2
	case "Q", "q", "S", "s":
		return 4
	case "C", "c":
		return 6
	}
	return -1
}

// playCall plays one Destination call starting at t[i]; returns the next index, or -1 if t[i] is not a call.
func playCall(d ivg.Destination, t []string, i int) int {
	f := func(j int) float32 { return f32arg(t[i+j]) }
	switch t[i] {
	case "R":
		d.Reset(ivg.ViewBox{MinX: f(1), MinY: f(2), MaxX: f(3), MaxY: f(4)}, palOfTok(t[i+5]))
		return i + 6
	case "CS":
		d.SetCSel(uint8(intarg(t[i+1])))
		return i + 2
	case "NS":
		d.SetNSel(uint8(intarg(t[i+1])))
		return i + 2
	case "CR":
		d.SetCReg(uint8(intarg(t[i+1])), t[i+2] == "1", colorOfTok(t[i+3]))
		return i + 4
	case "NR":
		d.SetNReg(uint8(intarg(t[i+1])), t[i+2] == "1", f(3))
		return i + 4
	case "LOD":
		d.SetLOD(f(1), f(2))
		return i + 3
	case "SP":
		d.StartPath(uint8(intarg(t[i+1])), f(2), f(3))
		return i + 4
	case "Z":
		d.ClosePathEndPath()
		return i + 1
	case "A", "a":
		fl := intarg(t[i+4])
		if t[i] == "A" {
			d.AbsArcTo(f(1), f(2), f(3), fl&1 != 0, fl&2 != 0, f(5), f(6))
		} else {
			d.RelArcTo(f(1), f(2), f(3), fl&1 != 0, fl&2 != 0, f(5), f(6))
		}
		return i + 7
	case "H":
		d.AbsHLineTo(f(1))
	case "h":
		d.RelHLineTo(f(1))
	case "V":
		d.AbsVLineTo(f(1))
	case "v":
		d.RelVLineTo(f(1))
	case "L":
		d.AbsLineTo(f(1), f(2))
	case "l":
		d.RelLineTo(f(1), f(2))
	case "T":
		d.AbsSmoothQuadTo(f(1), f(2))
	case "t":
		d.RelSmoothQuadTo(f(1), f(2))
	case "Y":
		d.ClosePathAbsMoveTo(f(1), f(2))
	case "y":
		d.ClosePathRelMoveTo(f(1), f(2))
	case "Q":
		d.AbsQuadTo(f(1), f(2), f(3), f(4))
	case "q":
		d.RelQuadTo(f(1), f(2), f(3), f(4))
	case "S":
		d.AbsSmoothCubeTo(f(1), f(2), f(3), f(4))
	case "s":
		d.RelSmoothCubeTo(f(1), f(2), f(3), f(4))
	case "C":
		d.AbsCubeTo(f(1), f(2), f(3), f(4), f(5), f(6))
	case "c":
		d.RelCubeTo(f(1), f(2), f(3), f(4), f(5), f(6))
	default:
		return -1
	}
	return i + 1 + arity(t[i])
}

// error values are identified through the verif-tagged exports (by value, not by message text), so
// that rewording a message is not mistaken for a change of behaviour
var encErrCodes = func() map[string]int {
	m := map[string]int{}
	for i, e := range encode.VerifErrors() {
		m[e.Error()] = i + 1
	}
	return m
}()

var decErrCodes = func() map[string]int {
	m := map[string]int{}
	for i, e := range decode.VerifErrors() {
		m[e.Error()] = i + 1
	}
	return m
}()

func encErr(err error) string {
	if c, ok := encErrCodes[err.Error()]; ok {
		return fmt.Sprintf("ERR%d", c)
	}
	return "ERR?" + strings.ReplaceAll(err.Error(), " ", "_")
}

func decOutcome(err error) string {
	if err == nil {
		return "OK"
	}
	if _, ok := err.(decode.DecodeError); !ok {
		return "NOT-A-DecodeError:" + strings.ReplaceAll(err.Error(), " ", "_")
	}
	if c, ok := decErrCodes[err.Error()]; ok {
		return fmt.Sprintf("ERR%d", c)
	}
	return "ERR?" + strings.ReplaceAll(err.Error(), " ", "_")
}

// runEnc plays an encoder script; returns the encoder and the observations.
func runEnc(t []string) (*encode.Encoder, []string) {
	e := &encode.Encoder{}
	return e, playEnc(e, t)
}

// playEnc plays an encoder script on e and returns the observations.
func playEnc(e *encode.Encoder, t []string) []string {
	var handed, copies [][]byte
	obs := playEnc1(e, t, &handed, &copies)
	for k := range handed {
		if string(handed[k]) != string(copies[k]) {
			obs = append(obs, "BYTES-CHANGED-AFTER-RETURN")
			break
		}
	}
	return obs
}

func playEnc1(e *encode.Encoder, t []string, handed, copies *[][]byte) []string {
	var obs []string
	for i := 0; i < len(t); {
		if t[i] == "R" {
			// Reset recycles the buffer (documented): bytes handed out before it are no longer watched
			*handed, *copies = nil, nil
		}
		switch t[i] {
		case "H0":
			e.HighResolutionCoordinates = false
			i++
		case "H1":
			e.HighResolutionCoordinates = true
			i++
		case "rc":
			obs = append(obs, fmt.Sprintf("s=%d", e.CSel()))
			i++
		case "rn":
			obs = append(obs, fmt.Sprintf("s=%d", e.NSel()))
			i++
		case "rl":
			a, b := e.LOD()
			obs = append(obs, "lod="+f32s(a)+","+f32s(b))
			i++
		case "B":
			b, err := e.Bytes()
			if err != nil {
				obs = append(obs, "B="+encErr(err))
			} else {
				obs = append(obs, "B="+hexs(b))
				*handed = append(*handed, b)
				*copies = append(*copies, append([]byte(nil), b...))
			}
			i++
		default:
			j := playCall(e, t, i)
			if j < 0 {
				panic("bad token " + t[i])
			}
			i = j
		}
	}
	return obs
}

func colorOfModel(model, raw string) color.Color {
	u, err := strconv.ParseUint(raw, 16, 64)
	if err != nil {
		panic("bad raw colour " + raw)
	}
	switch model {
	case "nrgba":
		return color.NRGBA{uint8(u >> 24), uint8(u >> 16), uint8(u >> 8), uint8(u)}
	case "rgba64":
		return color.RGBA64{uint16(u >> 48), uint16(u >> 32), uint16(u >> 16), uint16(u)}
	case "gray16":
		return color.Gray16{uint16(u)}
	case "alpha16":
		return color.Alpha16{uint16(u)}
	}
	panic("bad colour model " + model)
}

// optsOfToks returns the options in a slice with spare capacity (nil slots), so that a callee that appends
// to its variadic parameter writes into memory the caller can see: spareModified reports that.
func optsOfToks(t []string) []decode.DecodeOption {
	o := make([]decode.DecodeOption, 0, len(t)+4)
	for _, s := range t {
		switch {
		case strings.HasPrefix(s, "OP:"):
			o = append(o, decode.WithPalette(palOfTok(s[3:])))
		case strings.HasPrefix(s, "OI:"):
			p := strings.Split(s, ":")
			o = append(o, decode.WithColorAt(intarg(p[1]), rgbaOfHex(p[2])))
		case strings.HasPrefix(s, "OJ:"):
			// OJ:<index>:<colour model>:<raw hex>:<expected RGBA (used by the model only)>
			p := strings.Split(s, ":")
			o = append(o, decode.WithColorAt(intarg(p[1]), colorOfModel(p[2], p[3])))
		default:
			panic("bad option " + s)
		}
	}
	return o
}

func spareModified(o []decode.DecodeOption) bool {
	for _, x := range o[len(o):cap(o)] {
		if x != nil {
			return true
		}
	}
	return false
}

func decStr(b []byte, opts ...decode.DecodeOption) string {
	orig := append([]byte(nil), b...)
	r := &recorder{}
	var err error
	func() {
		defer func() {
			if x := recover(); x != nil {
				err = nil
				r.toks = append([]string{"PANIC"}, r.toks...)
			}
		}()
		err = decode.Decode(r, b, opts...)
	}()
	if string(orig) != string(b) {
		return "INPUT-MODIFIED"
	}
	if len(r.toks) > 0 && r.toks[0] == "PANIC" {
		return "PANIC | " + strings.Join(r.toks[1:], " ")
	}
	return decOutcome(err) + " | " + strings.Join(r.toks, " ")
}

func init() {
	handlers["ENC"] = func(a []string) string {
		_, obs := runEnc(a)
		return strings.Join(obs, " ")
	}
	handlers["DEC"] = func(a []string) string {
		o := optsOfToks(a[1:])
		s := decStr(hexarg(a[0]), o...)
		if spareModified(o) {
			return "OPTIONS-SLICE-MODIFIED"
		}
		return s
	}
	handlers["DECNIL"] = func(a []string) string {
		// decode.Decode(nil, src): no destination, the stream is validated all the same
		b := hexarg(a[0])
		out := ""
		func() {
			defer func() {
				if x := recover(); x != nil {
					out = "PANIC"
				}
			}()
			out = decOutcome(decode.Decode(nil, b))
		}()
		return out
	}
	handlers["DVB"] = func(a []string) string {
		vb, err := decode.DecodeViewBox(hexarg(a[0]))
		if err != nil {
			return decOutcome(err)
		}
		return "OK " + f32s(vb.MinX) + " " + f32s(vb.MinY) + " " + f32s(vb.MaxX) + " " + f32s(vb.MaxY)
	}
	handlers["ED"] = func(a []string) string {
		e, _ := runEnc(a)
		b, err := e.Bytes()
		if err != nil {
			return "ENC" + encErr(err)
		}
		return decStr(b)
	}
	handlers["TR"] = func(a []string) string {
		k := intarg(a[0])
		hi := a[1] == "1"
		b := hexarg(a[2])
		var out []string
		for i := k; ; i-- {
			r := &recorder{}
			err := decode.Decode(r, b)
			out = append(out, decOutcome(err)+" | "+strings.Join(r.toks, " "))
			if i == 0 || err != nil {
				break
			}
			// feed the decoded calls to a fresh Encoder (resolution flag set after Reset, which clears it)
			e := &encode.Encoder{}
			t := r.toks
			for j := 0; j < len(t); {
				n := playCall(e, t, j)
				if j == 0 && hi {
					e.HighResolutionCoordinates = true
				}
				j = n
			}
			if len(t) == 0 && hi {
				e.HighResolutionCoordinates = true
			}
			nb, err := e.Bytes()
			if err != nil {
				out = append(out, "ENC"+encErr(err))
				break
			}
			b = nb
		}
		return strings.Join(out, " || ")
	}
}

//go:build verif

package main

// The translator for literal tables: parses /repo's sources with go/parser and
// prints coq/gen/Tables.v.  The theorems in coq/props that mention these
// tables are re-checked by the Coq kernel against what the code says now.

import (
	"fmt"
	"go/ast"
	"go/parser"
	"go/token"
	"os"
	"path/filepath"
	"sort"
	"strconv"
	"strings"
)

func parseFile(path string) *ast.File {
	fset := token.NewFileSet()
	f, err := parser.ParseFile(fset, path, nil, 0)
	if err != nil {
		fmt.Fprintln(os.Stderr, "tables:", err)
		os.Exit(1)
	}
	return f
}

func findVar(f *ast.File, name string) ast.Expr {
	for _, d := range f.Decls {
		gd, ok := d.(*ast.GenDecl)
		if !ok {
			continue
		}
		for _, s := range gd.Specs {
			vs, ok := s.(*ast.ValueSpec)
			if !ok {
				continue
			}
			for i, n := range vs.Names {
				if n.Name == name && i < len(vs.Values) {
					return vs.Values[i]
				}
			}
		}
	}
	fmt.Fprintln(os.Stderr, "tables: cannot find", name)
	os.Exit(1)
	return nil
}

func litInt(e ast.Expr) int64 {
	switch v := e.(type) {
	case *ast.BasicLit:
		switch v.Kind {
		case token.INT:
			n, err := strconv.ParseInt(v.Value, 0, 64)
			if err != nil {
				panic(err)
			}
			return n
		case token.CHAR:
			s, err := strconv.Unquote(v.Value)
			if err != nil {
				panic(err)
			}
			return int64(s[0])
		case token.FLOAT:
			f, err := strconv.ParseFloat(v.Value, 64)
			if err != nil || f != float64(int64(f)) {
				panic("non-integer float literal " + v.Value)
			}
			return int64(f)
		}
	case *ast.UnaryExpr:
		if v.Op == token.SUB {
			return -litInt(v.X)
		}
		if v.Op == token.ADD {
			return litInt(v.X)
		}
	case *ast.ParenExpr:
		return litInt(v.X)
	}
	panic(fmt.Sprintf("tables: unsupported literal %T", e))
}

func zlit(n int64) string {
	if n < 0 {
		return fmt.Sprintf("(%d)", n)
	}
	return fmt.Sprintf("%d", n)
}

func tablesMain(repo string) {
	var b strings.Builder
	b.WriteString("(* GENERATED from /repo by `harness -tables` on every check run. Do not edit. *)\n")
	b.WriteString("From Coq Require Import ZArith List.\nImport ListNotations.\nLocal Open Scope Z_scope.\n\n")

	// encode/encode.go: drawOps
	enc := parseFile(filepath.Join(repo, "encode", "encode.go"))
	cl := findVar(enc, "drawOps").(*ast.CompositeLit)
	type ent struct{ key, base, rep, nargs int64 }
	var ents []ent
	for _, el := range cl.Elts {
		kv := el.(*ast.KeyValueExpr)
		v := kv.Value.(*ast.CompositeLit)
		ents = append(ents, ent{litInt(kv.Key), litInt(v.Elts[0]), litInt(v.Elts[1]), litInt(v.Elts[2])})
	}
	sort.Slice(ents, func(i, j int) bool { return ents[i].key < ents[j].key })
	b.WriteString("(* encode/encode.go drawOps: (verb character, (opcodeBase, maxRepCount, nArgs)) *)\n")
	b.WriteString("Definition drawOps : list (Z * (Z * Z * Z)) :=\n  [")
	for i, e := range ents {
		if i > 0 {
			b.WriteString(";\n   ")
		}
		fmt.Fprintf(&b, "(%d, (%d, %d, %d))", e.key, e.base, e.rep, e.nargs)
	}
	b.WriteString("].\n\n")

	// color.go: dc1Table
	col := parseFile(filepath.Join(repo, "color.go"))
	dc := findVar(col, "dc1Table").(*ast.CompositeLit)
	b.WriteString("Definition dc1Table : list Z := [")
	for i, el := range dc.Elts {
		if i > 0 {
			b.WriteString("; ")
		}
		b.WriteString(zlit(litInt(el)))
	}
	b.WriteString("].\n\n")

	// ivg.go: Magic, Mid*, DefaultViewBox
	ivgf := parseFile(filepath.Join(repo, "ivg.go"))
	magic := ""
	mids := map[string]int64{}
	for _, d := range ivgf.Decls {
		gd, ok := d.(*ast.GenDecl)
		if !ok || gd.Tok != token.CONST {
			continue
		}
		for _, s := range gd.Specs {
			vs := s.(*ast.ValueSpec)
			for i, n := range vs.Names {
				if i >= len(vs.Values) {
					continue
				}
				if n.Name == "Magic" {
					magic, _ = strconv.Unquote(vs.Values[i].(*ast.BasicLit).Value)
				}
				if n.Name == "MidViewBox" || n.Name == "MidSuggestedPalette" {
					mids[n.Name] = litInt(vs.Values[i])
				}
			}
		}
	}
	b.WriteString("Definition magic : list Z := [")
	for i := 0; i < len(magic); i++ {
		if i > 0 {
			b.WriteString("; ")
		}
		fmt.Fprintf(&b, "%d", magic[i])
	}
	b.WriteString("].\n")
	fmt.Fprintf(&b, "Definition midViewBox : Z := %d.\nDefinition midSuggestedPalette : Z := %d.\n",
		mids["MidViewBox"], mids["MidSuggestedPalette"])
	dvb := findVar(ivgf, "DefaultViewBox").(*ast.CompositeLit)
	b.WriteString("(* DefaultViewBox as integers (MinX, MinY, MaxX, MaxY) *)\nDefinition defaultViewBox : list Z := [")
	vals := map[string]int64{}
	for _, el := range dvb.Elts {
		kv := el.(*ast.KeyValueExpr)
		vals[kv.Key.(*ast.Ident).Name] = litInt(kv.Value)
	}
	for i, k := range []string{"MinX", "MinY", "MaxX", "MaxY"} {
		if i > 0 {
			b.WriteString("; ")
		}
		b.WriteString(zlit(vals[k]))
	}
	b.WriteString("].\n")
	// DefaultPalette: list of (r,g,b,a)
	dp := findVar(ivgf, "DefaultPalette").(*ast.CompositeLit)
	b.WriteString("Definition defaultPalette : list (Z * Z * Z * Z) :=\n  [")
	for i, el := range dp.Elts {
		c := el.(*ast.CompositeLit)
		if i > 0 {
			b.WriteString("; ")
		}
		fmt.Fprintf(&b, "(%d, %d, %d, %d)", litInt(c.Elts[0]), litInt(c.Elts[1]), litInt(c.Elts[2]), litInt(c.Elts[3]))
	}
	b.WriteString("].\n\n")

	// decode/decode.go: decodeDrawing's switch on the high nibble of a drawing opcode below 0xe0
	dec := parseFile(filepath.Join(repo, "decode", "decode.go"))
	b.WriteString("(* decode/decode.go decodeDrawing, `switch opcode >> 4`: (high nibble, (verb character, nCoords, repeat-count mask)) *)\n")
	b.WriteString("Definition decDrawNibbles : list (Z * (Z * Z * Z)) :=\n  [")
	type nib struct{ n, verb, nco, mask int64 }
	var nibs []nib
	var defaultMask int64 = -1
	for _, d := range dec.Decls {
		fd, ok := d.(*ast.FuncDecl)
		if !ok || fd.Name.Name != "decodeDrawing" {
			continue
		}
		ast.Inspect(fd.Body, func(n ast.Node) bool {
			// op, nCoords, nReps := "", 0, 1+int(opcode&0x0f)   gives the default mask
			if as, ok := n.(*ast.AssignStmt); ok && len(as.Lhs) == 3 && len(as.Rhs) == 3 {
				if id, ok := as.Lhs[2].(*ast.Ident); ok && id.Name == "nReps" {
					defaultMask = repMask(as.Rhs[2])
				}
			}
			sw, ok := n.(*ast.SwitchStmt)
			if !ok || sw.Tag == nil {
				return true
			}
			be, ok := sw.Tag.(*ast.BinaryExpr)
			if !ok || be.Op != token.SHR {
				return true
			}
			for _, c := range sw.Body.List {
				cc := c.(*ast.CaseClause)
				e := nib{verb: -1, nco: 0, mask: -1}
				for _, st := range cc.Body {
					as, ok := st.(*ast.AssignStmt)
					if !ok || len(as.Lhs) != 1 {
						continue
					}
					switch as.Lhs[0].(*ast.Ident).Name {
					case "op":
						str, _ := strconv.Unquote(as.Rhs[0].(*ast.BasicLit).Value)
						e.verb = int64(str[0])
					case "nCoords":
						e.nco = litInt(as.Rhs[0])
					case "nReps":
						e.mask = repMask(as.Rhs[0])
					}
				}
				for _, v := range cc.List {
					x := e
					x.n = litInt(v)
					nibs = append(nibs, x)
				}
			}
			return false
		})
	}
	sort.Slice(nibs, func(i, j int) bool { return nibs[i].n < nibs[j].n })
	for i, e := range nibs {
		if e.mask < 0 {
			e.mask = defaultMask
		}
		if i > 0 {
			b.WriteString(";\n   ")
		}
		fmt.Fprintf(&b, "(%d, (%d, %d, %d))", e.n, e.verb, e.nco, e.mask)
	}
	b.WriteString("].\n")
	fmt.Print(b.String())
}

// repMask returns m for an expression of the form 1 + int(opcode & m); -1 otherwise.
func repMask(e ast.Expr) int64 {
	be, ok := e.(*ast.BinaryExpr)
	if !ok || be.Op != token.ADD || litInt(be.X) != 1 {
		return -1
	}
	call, ok := be.Y.(*ast.CallExpr)
	if !ok || len(call.Args) != 1 {
		return -1
	}
	and, ok := call.Args[0].(*ast.BinaryExpr)
	if !ok || and.Op != token.AND {
		return -1
	}
	return litInt(and.Y)
}

//go:build verif

package main

// The translator for literal tables: parses /repo's sources with go/parser and
// prints coq/gen/Tables.v.  The theorems in coq/props that mention these
// tables are re-checked by the Coq kernel against what the code says now.

import (
	"fmt"
	"go/ast"
	"go/parser"
	"go/token"
	"os"
	"path/filepath"
	"sort"
	"strconv"
	"strings"
)

func parseFile(path string) *ast.File {
	fset := token.NewFileSet()
	f, err := parser.ParseFile(fset, path, nil, 0)
	if err != nil {
		fmt.Fprintln(os.Stderr, "tables:", err)
		os.Exit(1)
	}
	return f
}

func findVar(f *ast.File, name string) ast.Expr {
	for _, d := range f.Decls {
		gd, ok := d.(*ast.GenDecl)
		if !ok {
			continue
		}
		for _, s := range gd.Specs {
			vs, ok := s.(*ast.ValueSpec)
			if !ok {
				continue
			}
			for i, n := range vs.Names {
				if n.Name == name && i < len(vs.Values) {
					return vs.Values[i]
				}
			}
		}
	}
	fmt.Fprintln(os.Stderr, "tables: cannot find", name)
	os.Exit(1)
	return nil
}

func litInt(e ast.Expr) int64 {
	switch v := e.(type) {
	case *ast.BasicLit:
		switch v.Kind {
		case token.INT:
			n, err := strconv.ParseInt(v.Value, 0, 64)
			if err != nil {
				panic(err)
			}
			return n
		case token.CHAR:
			s, err := strconv.Unquote(v.Value)
			if err != nil {
				panic(err)
			}
			return int64(s[0])
		case token.FLOAT:
			f, err := strconv.ParseFloat(v.Value, 64)
			if err != nil || f != float64(int64(f)) {
				panic("non-integer float literal " + v.Value)
			}
			return int64(f)
		}
	case *ast.UnaryExpr:
		if v.Op == token.SUB {
			return -litInt(v.X)
		}
		if v.Op == token.ADD {
			return litInt(v.X)
		}
	case *ast.ParenExpr:
		return litInt(v.X)
	}
	panic(fmt.Sprintf("tables: unsupported literal %T", e))
}

func zlit(n int64) string {
	if n < 0 {
		return fmt.Sprintf("(%d)", n)
	}
	return fmt.Sprintf("%d", n)
}

func tablesMain(repo string) {
	var b strings.Builder
	b.WriteString("(* GENERATED from /repo by `harness -tables` on every check run. Do not edit. *)\n")
	b.WriteString("From Coq Require Import ZArith List.\nImport ListNotations.\nLocal Open Scope Z_scope.\n\n")

	// encode/encode.go: drawOps
	enc := parseFile(filepath.Join(repo, "encode", "encode.go"))
	cl := findVar(enc, "drawOps").(*ast.CompositeLit)
	type ent struct{ key, base, rep, nargs int64 }
	var ents []ent
	for _, el := range cl.Elts {
		kv := el.(*ast.KeyValueExpr)
		v := kv.Value.(*ast.CompositeLit)
		ents = append(ents, ent{litInt(kv.Key), litInt(v.Elts[0]), litInt(v.Elts[1]), litInt(v.Elts[2])})
	}
	sort.Slice(ents, func(i, j int) bool { return ents[i].key < ents[j].key })
	b.WriteString("(* encode/encode.go drawOps: (verb character, (opcodeBase, maxRepCount, nArgs)) *)\n")
	b.WriteString("Definition drawOps : list (Z * (Z * Z * Z)) :=\n  [")
	for i, e := range ents {
		if i > 0 {
			b.WriteString(";\n   ")
		}
		fmt.Fprintf(&b, "(%d, (%d, %d, %d))", e.key, e.base, e.rep, e.nargs)
	}
	b.WriteString("].\n\n")

	// color.go: dc1Table
	col := parseFile(filepath.Join(repo, "color.go"))
	dc := findVar(col, "dc1Table").(*ast.CompositeLit)
	b.WriteString("Definition dc1Table : list Z := [")
	for i, el := range dc.Elts {
		if i > 0 {
			b.WriteString("; ")
		}
		b.WriteString(zlit(litInt(el)))
	}
	b.WriteString("].\n\n")

	// ivg.go: Magic, Mid*, DefaultViewBox
	ivgf := parseFile(filepath.Join(repo, "ivg.go"))
	magic := ""
	mids := map[string]int64{}
	for _, d := range ivgf.Decls {
		gd, ok := d.(*ast.GenDecl)
		if !ok || gd.Tok != token.CONST {
			continue
		}
		for _, s := range gd.Specs {
			vs := s.(*ast.ValueSpec)
			for i, n := range vs.Names {
				if i >= len(vs.Values) {
					continue
				}
				if n.Name == "Magic" {
					magic, _ = strconv.Unquote(vs.Values[i].(*ast.BasicLit).Value)
				}
				if n.Name == "MidViewBox" || n.Name == "MidSuggestedPalette" {
					mids[n.Name] = litInt(vs.Values[i])
				}
			}
		}
	}
	b.WriteString("Definition magic : list Z := [")
	for i := 0; i < len(magic); i++ {
		if i > 0 {
			b.WriteString("; ")
		}
		fmt.Fprintf(&b, "%d", magic[i])
	}
	b.WriteString("].\n")
	fmt.Fprintf(&b, "Definition midViewBox : Z := %d.\nDefinition midSuggestedPalette : Z := %d.\n",
		mids["MidViewBox"], mids["MidSuggestedPalette"])
	dvb := findVar(ivgf, "DefaultViewBox").(*ast.CompositeLit)
	b.WriteString("(* DefaultViewBox as integers (MinX, MinY, MaxX, MaxY) *)\nDefinition defaultViewBox : list Z := [")
	vals := map[string]int64{}
	for _, el := range dvb.Elts {
		kv := el.(*ast.KeyValueExpr)
		vals[kv.Key.(*ast.Ident).Name] = litInt(kv.Value)
	}
	for i, k := range []string{"MinX", "MinY", "MaxX", "MaxY"} {
		if i > 0 {
			b.WriteString("; ")
		}
		b.WriteString(zlit(vals[k]))
	}
	b.WriteString("].\n")
	// DefaultPalette: list of (r,g,b,a)
	dp := findVar(ivgf, "DefaultPalette").(*ast.CompositeLit)
	b.WriteString("Definition defaultPalette : list (Z * Z * Z * Z) :=\n  [")
	for i, el := range dp.Elts {
		c := el.(*ast.CompositeLit)
		if i > 0 {
			b.WriteString("; ")
		}
		fmt.Fprintf(&b, "(%d, %d, %d, %d)", litInt(c.Elts[0]), litInt(c.Elts[1]), litInt(c.Elts[2]), litInt(c.Elts[3]))
	}
	b.WriteString("].\n")
	fmt.Print(b.String())
}

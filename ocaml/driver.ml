(* Runs case scripts against the extracted model; same line format as the Go harness. *)
open Model
open Util

let handlers : (string, string list -> string) Hashtbl.t = Hashtbl.create 64
let reg k f = Hashtbl.replace handlers k f

let () =
  reg "EN" (fun a -> hex_of_bytes (enc_natural (z_of_dec (List.nth a 0))));
  reg "ER" (fun a -> hex_of_bytes (enc_real (z_of_hex (List.nth a 0))));
  reg "E4" (fun a -> hex_of_bytes (enc_real4 (z_of_hex (List.nth a 0))));
  reg "EC" (fun a -> hex_of_bytes (enc_coordinate (z_of_hex (List.nth a 0))));
  reg "EZ" (fun a -> hex_of_bytes (enc_zero_to_one (z_of_hex (List.nth a 0))));
  reg "EA" (fun a -> hex_of_bytes (enc_angle (z_of_hex (List.nth a 0))));
  reg "QZ" (fun a -> f32s (quantize (List.nth a 0 = "1") (z_of_hex (List.nth a 1))));
  reg "DN" (fun a ->
    match dec_natural (bytes_of_hex (List.nth a 0)) with
    | None -> "- 0"
    | Some (u, n) -> dec_of_z u ^ " " ^ string_of_int (int_of_nat n));
  let dec f = fun a ->
    match f (bytes_of_hex (List.nth a 0)) with
    | None -> "- 0"
    | Some (v, n) -> f32s v ^ " " ^ string_of_int (int_of_nat n) in
  reg "DR" (dec dec_real);
  reg "DC" (dec dec_coordinate);
  reg "DZ" (dec dec_zero_to_one);
  reg "NR" (fun a ->
    let (op, bs) = nreg_choice (z_of_hex (List.nth a 0)) in
    dec_of_z op ^ " " ^ hex_of_bytes bs)

let () =
  let out = Buffer.create (1 lsl 16) in
  (try
    while true do
      let line = input_line stdin in
      match String.split_on_char ' ' line |> List.filter (fun s -> s <> "") with
      | id :: kind :: args ->
          let r =
            match Hashtbl.find_opt handlers kind with
            | None -> "UNKNOWN-KIND " ^ kind
            | Some h -> (try h args with e -> "MODEL-EXN " ^ Printexc.to_string e) in
          Buffer.add_string out id; Buffer.add_char out ' ';
          Buffer.add_string out r; Buffer.add_char out '\n';
          if Buffer.length out > (1 lsl 16) then (print_string (Buffer.contents out); Buffer.clear out)
      | _ -> ()
    done
  with End_of_file -> ());
  print_string (Buffer.contents out)

(* Runs case scripts against the extracted model; same line format as the Go harness. *)
open Model
open Util
open Script

let handlers : (string, string list -> string) Hashtbl.t = Hashtbl.create 64
let reg k f = Hashtbl.replace handlers k f

let () =
  reg "EN" (fun a -> hex_of_bytes (enc_natural (z_of_dec (List.nth a 0))));
  reg "ER" (fun a -> hex_of_bytes (enc_real (z_of_hex (List.nth a 0))));
  reg "E4" (fun a -> hex_of_bytes (enc_real4 (z_of_hex (List.nth a 0))));
  reg "EC" (fun a -> hex_of_bytes (enc_coordinate (z_of_hex (List.nth a 0))));
  reg "EZ" (fun a -> hex_of_bytes (enc_zero_to_one (z_of_hex (List.nth a 0))));
  reg "EA" (fun a -> hex_of_bytes (enc_angle (z_of_hex (List.nth a 0))));
  reg "QZ" (fun a -> f32s (quantize (List.nth a 0 = "1") (z_of_hex (List.nth a 1))));
  reg "DN" (fun a ->
    match dec_natural (bytes_of_hex (List.nth a 0)) with
    | None -> "- 0"
    | Some (u, n) -> dec_of_z u ^ " " ^ string_of_int (int_of_nat n));
  let dec f = fun a ->
    match f (bytes_of_hex (List.nth a 0)) with
    | None -> "- 0"
    | Some (v, n) -> f32s v ^ " " ^ string_of_int (int_of_nat n) in
  reg "DR" (dec dec_real);
  reg "DC" (dec dec_coordinate);
  reg "DZ" (dec dec_zero_to_one);
  reg "NR" (fun a ->
    let (op, bs) = nreg_choice (z_of_hex (List.nth a 0)) in
    dec_of_z op ^ " " ^ hex_of_bytes bs)


(* ---- encoder / decoder scripts ---- *)
let run_enc toks =
  let (e, obs) = enc_run enc_zero (acts_of_toks toks) in
  (e, List.filter_map str_of_obs obs)

let last_bytes (e : enc) : bytes_res = snd (enc_bytes e)

let dec_str (opts : dopt list) (bs : z list) : string =
  let (cs, o) = decode_calls opts bs in
  str_of_outcome o ^ " | " ^ str_of_calls cs

let () =
  reg "ENC" (fun a -> String.concat " " (snd (run_enc a)));
  reg "DEC" (fun a ->
    match a with
    | h :: opts -> dec_str (opts_of_toks opts) (bytes_of_hex h)
    | [] -> failwith "DEC");
  reg "DPIX" (fun a ->
    let (_, o) = decode_calls [] (bytes_of_hex (List.nth a 2)) in str_of_outcome o);
  reg "DECNIL" (fun a ->
    let (_, o) = decode_calls [] (bytes_of_hex (List.nth a 0)) in str_of_outcome o);
  reg "DVB" (fun a ->
    let (vb, o) = decode_viewbox (bytes_of_hex (List.nth a 0)) in
    match o with
    | Done -> "OK " ^ f32s vb.vminx ^ " " ^ f32s vb.vminy ^ " " ^ f32s vb.vmaxx ^ " " ^ f32s vb.vmaxy
    | _ -> str_of_outcome o);
  (* encode a script, then decode the final bytes: observable = decoded calls *)
  reg "ED" (fun a ->
    let (e, _) = run_enc a in
    match last_bytes e with
    | BytesErr x -> "ENCERR" ^ string_of_int (eerr_code x)
    | BytesOk b -> dec_str [] b);
  (* transcode k times: decode -> Encoder -> Bytes -> decode ... ; prints each generation's calls *)
  reg "TR" (fun a ->
    match a with
    | k :: hi :: h :: [] ->
        let k = int_of_string k in
        let rec go i bs acc =
          let (cs, o) = decode_calls [] bs in
          let acc = acc @ [str_of_outcome o ^ " | " ^ str_of_calls cs] in
          if i = 0 || o <> Done then acc
          else
            let acts = (if hi = "1" then [AHiRes true] else []) in
            (* the resolution flag must be set after Reset: Reset clears it *)
            let acts = match cs with
              | r :: rest -> ACall r :: acts @ List.map (fun c -> ACall c) rest
              | [] -> acts in
            let (e, _) = enc_run enc_zero acts in
            (match last_bytes e with
             | BytesErr x -> acc @ ["ENCERR" ^ string_of_int (eerr_code x)]
             | BytesOk b -> go (i - 1) b acc) in
        String.concat " || " (go k (bytes_of_hex h) [])
    | _ -> failwith "TR")


(* ---- disassembly lines (structured payloads printed in the harness' token syntax) ---- *)
let is_nan32 (b : z) : bool =
  let i = int_of_z b in (i land 0x7f800000) = 0x7f800000 && (i land 0x7fffff) <> 0
let numtok f = if is_nan32 f then "nan" else f32s f

let rec color_str (c : color) : string =
  match c with
  | CRGBA d ->
      if valid_premul d then "#" ^ hex_of_rgba d
      else if valid_gradient d then
        let i x = int_of_z x in
        Printf.sprintf "grad:%d:%d:%d:%d:%d" (i d.cr land 0x3f) (i d.cg land 0x3f) (i d.cb land 0x3f)
          ((i d.cb lsr 6) land 1) (i d.cg lsr 6)
      else "nonsense"
  | CPal i -> "p" ^ dec_of_z i
  | CCReg i -> "c" ^ dec_of_z i
  | CBlend (t, c0, c1) ->
      Printf.sprintf "b:%d:%d:%s:%s" (255 - int_of_z t) (int_of_z t)
        (color_str (decode_color1 c0)) (color_str (decode_color1 c1))

let payload_str (p : payload) : string =
  let ch op = String.make 1 (Char.chr (int_of_z op)) in
  let b01 b = if b then "1" else "0" in
  match p with
  | PMagic -> "magic"
  | PNChunks n -> "nchunks=" ^ dec_of_z n
  | PChunkLen n -> "chunklen=" ^ dec_of_z n
  | PMid m -> "mid=" ^ dec_of_z m
  | PPalHdr (c, b) -> "palhdr=" ^ dec_of_z c ^ "," ^ dec_of_z b
  | PPalColor c -> "color=#" ^ hex_of_rgba c
  | PNum f -> "num=" ^ numtok f
  | PSetCSel v -> "csel=" ^ dec_of_z v
  | PSetNSel v -> "nsel=" ^ dec_of_z v
  | PSetCReg (adj, incr, form) -> "setcreg=" ^ dec_of_z adj ^ "," ^ b01 incr ^ "," ^ dec_of_z form
  | PColor c -> "color=" ^ color_str c
  | PSetNReg (adj, incr, typ) -> "setnreg=" ^ dec_of_z adj ^ "," ^ b01 incr ^ "," ^ dec_of_z (if int_of_z typ > 2 then z_of_int 2 else typ)
  | PNRegNum f -> "num=" ^ numtok f
  | PStartPath adj -> "startpath=" ^ dec_of_z adj
  | PSetLOD -> "setlod"
  | PDrawOp (op, n) -> "op=" ^ ch op ^ "," ^ dec_of_z n
  | PImplicit op -> "implicit=" ^ ch op
  | PAngle f -> "angle=" ^ numtok f
  | PFlags x -> Printf.sprintf "flags=%s,%d,%d" (dec_of_z x) (int_of_z (Z.modulo x (z_of_int 2))) (int_of_z (Z.modulo (Z.div x (z_of_int 2)) (z_of_int 2)))
  | PSimple op -> "simple=" ^ ch op

let () =
  let dis a =
    match disassemble (bytes_of_hex (List.nth a 0)) with
    | (Some lines, _) ->
        "OK " ^ String.concat " " (List.map (fun (b, p) -> hex_of_bytes b ^ "|" ^ payload_str p) lines)
    | (None, o) -> str_of_outcome o in
  reg "DIS" dis;
  reg "DD" (fun a -> dec_str [] (bytes_of_hex (List.nth a 0)) ^ " || " ^ dis a)


(* ---- renderer ---- *)
let calls_of_toks toks =
  List.filter_map (fun a -> match a with ACall c -> Some c | _ -> None) (acts_of_toks toks)

let paint_str (p : z paint) : string =
  match p with
  | PFlat c -> "F#" ^ hex_of_rgba c
  | PGrad g ->
      let stops = String.concat "," (List.map (fun st -> f64s (convert f32 f64 st.gs_off) ^ "#" ^ hex_of_rgba st.gs_col) g.g_stops) in
      let mat = String.concat "," (List.map f64s (pix2grad g)) in
      Printf.sprintf "G%d%d[%s](%s)" (int_of_z g.g_shape) (int_of_z g.g_spread) stops mat

let rcall_str (c : z rcall) : string =
  match c with
  | RReset (w, h) -> Printf.sprintf "r%dx%d" (int_of_z w) (int_of_z h)
  | RMoveTo (x, y) -> "m " ^ f32s x ^ " " ^ f32s y
  | RLineTo (x, y) -> "l " ^ f32s x ^ " " ^ f32s y
  | RQuadTo (a, b, c, d) -> String.concat " " ("q" :: List.map f32s [a; b; c; d])
  | RCubeTo (a, b, c, d, e, f) -> String.concat " " ("c" :: List.map f32s [a; b; c; d; e; f])
  | RClose -> "z"
  | RDraw (x0, y0, x1, y1, p) ->
      Printf.sprintf "d %d,%d,%d,%d %s" (int_of_z x0) (int_of_z y0) (int_of_z x1) (int_of_z y1) (paint_str p)

(* renderer tokens with "SR x0 y0 w h" (SetRasterizer in the middle of the script) *)
let rec rrun_toks s toks =
  let rec upto acc = function
    | "SR" :: a :: b :: c :: d :: r -> (List.rev acc, Some (a, b, c, d, r))
    | "COPY" :: r -> upto acc r
    | x :: r -> upto (x :: acc) r
    | [] -> (List.rev acc, None) in
  match upto [] toks with
  | (seg, None) -> rrun32 s (calls_of_toks seg)
  | (seg, Some (a, b, c, d, r)) ->
      let s1 = rrun32 s (calls_of_toks seg) in
      rrun_toks (set_rasterizer n32 s1 (z_of_dec a) (z_of_dec b) (z_of_dec c) (z_of_dec d)) r

let run_ren x0 y0 w h toks =
  let s0 = rinit n32 (z_of_dec x0) (z_of_dec y0) (z_of_dec w) (z_of_dec h) in
  rrun_toks s0 toks

let () =
  reg "REN" (fun a ->
    match a with
    | x0 :: y0 :: w :: h :: toks ->
        let s = run_ren x0 y0 w h toks in
        String.concat " " (List.map rcall_str s.r_log) ^
        Printf.sprintf " | cs=%d ns=%d" (int_of_z s.r_csel) (int_of_z s.r_nsel)
    | _ -> failwith "REN");
  (* gradient evaluation: GRAD x0 y0 w h npix x,y ... calls: At() of every gradient paint drawn, at the pixels *)
  reg "GRAD" (fun a ->
    match a with
    | x0 :: y0 :: w :: h :: np :: rest ->
        let np = int_of_string np in
        let (pix, toks) = take np rest in
        let pix = List.map (fun s -> match String.split_on_char ',' s with
                                     | [x; y] -> (z_of_dec x, z_of_dec y) | _ -> failwith "pix") pix in
        let s = run_ren x0 y0 w h toks in
        let outs = List.filter_map (fun c -> match c with
          | RDraw (_, _, _, _, PGrad g) ->
              Some (String.concat "," (List.map (fun (x, y) ->
                let c = grad_at g x y in
                Printf.sprintf "%04x%04x%04x%04x" (int_of_z c.c_r) (int_of_z c.c_g) (int_of_z c.c_b) (int_of_z c.c_a)) pix))
          | RDraw (_, _, _, _, PFlat c) -> Some ("flat#" ^ hex_of_rgba c)
          | _ -> None) s.r_log in
        String.concat " " outs
    | _ -> failwith "GRAD");
  reg "CLAMP" (fun a -> f64s (clamp (z_of_dec (List.nth a 0)) (z_of_hex (List.nth a 1))));
  reg "TRIG" (fun a ->
    let x = z_of_hex (List.nth a 1) in
    f64s (match List.nth a 0 with "sin" -> gosin x | "cos" -> gocos x | _ -> goacos x))


(* ---- aspect fitting ---- *)
let () =
  reg "FIT" (fun a ->
    match a with
    | kind :: rest ->
        (match List.map z_of_hex rest with
         | [minx; miny; maxx; maxy; dx; dy; ax; ay] ->
             let f = if kind = "meet" then aspect_meet else aspect_slice in
             let (((a1, b1), c1), d1) = f f32ops minx miny maxx maxy dx dy ax ay in
             String.concat " " (List.map f32s [a1; b1; c1; d1])
         | [minx; miny; maxx; maxy] ->
             let (w, h) = vb_size f32ops minx miny maxx maxy in f32s w ^ " " ^ f32s h
         | _ -> failwith "FIT args")
    | _ -> failwith "FIT")

(* ---- pipelines: actions incl. generator helpers, on a Renderer (direct) and on an Encoder whose
   bytes are then decoded into a second Renderer ---- *)
type gen_action =
  | GAct of eact
  | GHelper of z * z * Model.genstop list * z list   (* shape, spread, stops, matrix *)
  | GSkip  (* Generator.SetTransform: no effect on the gradient helpers *)
  | GNew   (* what came before was an earlier use of the same Encoder and Renderer: forget the rasteriser log *)

let rec parse_stops n toks acc =
  if n = 0 then (List.rev acc, toks)
  else match toks with
    | off :: col :: r -> parse_stops (n - 1) r ({ gs_offset = z_of_hex off; gs_color = rgba_of_hex col } :: acc)
    | _ -> failwith "stops"

let rec gacts_of_toks (t : string list) : gen_action list =
  match t with
  | [] -> []
  | "NEW" :: r -> GNew :: gacts_of_toks r
  | "ST" :: _ :: r -> GSkip :: gacts_of_toks r
  | "LG" :: x1 :: y1 :: x2 :: y2 :: sp :: n :: r ->
      let (stops, r') = parse_stops (int_of_string n) r [] in
      GHelper (Z0, z_of_dec sp, stops, linear_matrix (z_of_hex x1) (z_of_hex y1) (z_of_hex x2) (z_of_hex y2)) :: gacts_of_toks r'
  | "CG" :: cx :: cy :: rx :: ry :: sp :: n :: r ->
      let (stops, r') = parse_stops (int_of_string n) r [] in
      GHelper (z_of_int 1, z_of_dec sp, stops, circular_matrix (z_of_hex cx) (z_of_hex cy) (z_of_hex rx) (z_of_hex ry)) :: gacts_of_toks r'
  | "EG" :: cx :: cy :: rx :: ry :: sx :: sy :: sp :: n :: r ->
      let (stops, r') = parse_stops (int_of_string n) r [] in
      GHelper (z_of_int 1, z_of_dec sp, stops, elliptical_matrix (z_of_hex cx) (z_of_hex cy) (z_of_hex rx) (z_of_hex ry) (z_of_hex sx) (z_of_hex sy)) :: gacts_of_toks r'
  | "GG" :: sh :: sp :: m0 :: m1 :: m2 :: m3 :: m4 :: m5 :: n :: r ->
      let (stops, r') = parse_stops (int_of_string n) r [] in
      GHelper (z_of_dec sh, z_of_dec sp, stops, List.map z_of_hex [m0; m1; m2; m3; m4; m5]) :: gacts_of_toks r'
  | _ ->
      (* one ordinary action: find how many tokens it takes by parsing the head *)
      let rec split k =
        if k > List.length t then failwith ("bad token " ^ List.hd t)
        else
          let (h, r) = take k t in
          match (try Some (acts_of_toks h) with _ -> None) with
          | Some [a] -> (a, r)
          | _ -> split (k + 1) in
      let (a, r) = split 1 in
      GAct a :: gacts_of_toks r

let generr_str = function GTooManyStops -> "g=ERR1" | GCSelUsed -> "g=ERR2"

let () =
  reg "PIPE" (fun a ->
    match a with
    | x0 :: y0 :: w :: h :: toks ->
        let toks = List.filter (fun s -> s <> "LOG") toks in
        let acts = gacts_of_toks toks in
        let rs = ref (rinit n32 (z_of_dec x0) (z_of_dec y0) (z_of_dec w) (z_of_dec h)) in
        let es = ref enc_zero in
        let obs = Buffer.create 256 in
        let sel () =
          let (e1, oc) = enc_act !es AReadCSel in
          let (e2, on) = enc_act e1 AReadNSel in
          es := e2;
          let g o = match o with OSel v -> int_of_z v | _ -> -1 in
          Buffer.add_string obs (Printf.sprintf "%d,%d/%d,%d " (g oc) (g on) (int_of_z !rs.r_csel) (int_of_z !rs.r_nsel)) in
        List.iter (fun ga ->
          (match ga with
           | GAct (ACall c) -> rs := rstep32 !rs c; es := fst (enc_act !es (ACall c))
           | GAct a -> es := fst (enc_act !es a)
           | GNew -> rs := { !rs with r_log = [] }
           | GSkip -> ()
           | GHelper (sh, sp, stops, m) ->
               (* into the Renderer *)
               (match set_gradient !rs.r_csel !rs.r_nsel sh sp stops m with
                | Inl e -> Buffer.add_string obs (generr_str e ^ "r ")
                | Inr cs -> List.iter (fun c -> rs := rstep32 !rs c) cs; Buffer.add_string obs "g=okr ");
               (* into the Encoder *)
               let (e1, oc) = enc_act !es AReadCSel in
               let (e2, on) = enc_act e1 AReadNSel in
               es := e2;
               let g o = match o with OSel v -> v | _ -> Z0 in
               (match set_gradient (g oc) (g on) sh sp stops m with
                | Inl e -> Buffer.add_string obs (generr_str e ^ "e ")
                | Inr cs -> List.iter (fun c -> es := fst (enc_act !es (ACall c))) cs; Buffer.add_string obs "g=oke "));
          sel ()) acts;
        let direct = String.concat " " (List.map rcall_str !rs.r_log) in
        let via =
          match snd (enc_bytes !es) with
          | BytesErr x -> "ENCERR" ^ string_of_int (eerr_code x)
          | BytesOk b ->
              let (cs, o) = decode_calls [] b in
              let s2 = rrun32 (rinit n32 (z_of_dec x0) (z_of_dec y0) (z_of_dec w) (z_of_dec h)) cs in
              str_of_outcome o ^ " " ^ String.concat " " (List.map rcall_str s2.r_log) in
        Buffer.contents obs ^ "| " ^ direct ^ " | " ^ via
    | _ -> failwith "PIPE");
  (* decode (with options) into a Renderer *)
  reg "DREN" (fun a ->
    match a with
    | x0 :: y0 :: w :: h :: hx :: opts ->
        let (cs, o) = decode_calls (opts_of_toks opts) (bytes_of_hex hx) in
        let s = rrun32 (rinit n32 (z_of_dec x0) (z_of_dec y0) (z_of_dec w) (z_of_dec h)) cs in
        str_of_outcome o ^ " " ^ String.concat " " (List.map rcall_str s.r_log)
    | _ -> failwith "DREN");
  (* reuse: run A, then B on the same Renderer; print the rasteriser log produced by B, and by B on a fresh Renderer *)
  reg "REUSE" (fun a ->
    match a with
    | x0 :: y0 :: w :: h :: toks ->
        let rec split acc = function "|" :: r -> (List.rev acc, r) | x :: r -> split (x :: acc) r | [] -> (List.rev acc, []) in
        let (ta, tb) = split [] toks in
        let s0 = rinit n32 (z_of_dec x0) (z_of_dec y0) (z_of_dec w) (z_of_dec h) in
        let sa = rrun_toks s0 ta in
        let na = List.length sa.r_log in
        (* B may start with "SR x0 y0 w h": SetRasterizer with another rectangle before B (the fresh Renderer gets that one) *)
        let (sa, s0, tb) = match tb with
          | "SR" :: a0 :: b0 :: c0 :: d0 :: r ->
              (set_rasterizer n32 sa (z_of_dec a0) (z_of_dec b0) (z_of_dec c0) (z_of_dec d0),
               rinit n32 (z_of_dec a0) (z_of_dec b0) (z_of_dec c0) (z_of_dec d0), r)
          | _ -> (sa, s0, tb) in
        let sb = rrun_toks sa tb in
        let rec drop n l = if n = 0 then l else match l with _ :: r -> drop (n - 1) r | [] -> [] in
        let sel s = Printf.sprintf " | cs=%d ns=%d" (int_of_z s.r_csel) (int_of_z s.r_nsel) in
        let reused = String.concat " " (List.map rcall_str (drop na sb.r_log)) ^ sel sb in
        let sf = rrun_toks s0 tb in
        let fresh = String.concat " " (List.map rcall_str sf.r_log) ^ sel sf in
        reused ^ " || " ^ fresh
    | _ -> failwith "REUSE");
  (* sharing between Encoders: history A on one zero-value Encoder, then history B on another; B's observations
     are those of B alone, and A's bytes are not disturbed by B *)
  reg "ESHARE" (fun a ->
    let rec split acc = function "|" :: r -> (List.rev acc, r) | x :: r -> split (x :: acc) r | [] -> (List.rev acc, []) in
    let (_, tb) = split [] a in
    let (_, o2) = enc_run enc_zero (acts_of_toks tb) in
    String.concat " " (List.filter_map str_of_obs o2) ^ " | A-STABLE");
  reg "EREUSE" (fun a ->
    let rec split acc = function "|" :: r -> (List.rev acc, r) | x :: r -> split (x :: acc) r | [] -> (List.rev acc, []) in
    let (ta, tb) = split [] a in
    let (ea, _) = enc_run enc_zero (acts_of_toks ta) in
    let (_, o1) = enc_run ea (acts_of_toks tb) in
    let (_, o2) = enc_run enc_zero (acts_of_toks tb) in
    String.concat " " (List.filter_map str_of_obs o1) ^ " || " ^ String.concat " " (List.filter_map str_of_obs o2))


(* ---- colours ---- *)
let () =
  let encs o = match o with None -> "-" | Some l -> hex_of_bytes l in
  reg "C1" (fun a -> tok_of_color (decode_color1 (z_of_dec (List.nth a 0))));
  reg "CF" (fun a ->
    match dec_color_form (z_of_dec (List.nth a 0)) (bytes_of_hex (List.nth a 1)) with
    | None -> "- 0"
    | Some (c, n) -> tok_of_color c ^ " " ^ string_of_int (int_of_nat n));
  reg "CE" (fun a ->
    let c = color_of_tok (List.nth a 0) in
    let (r, ok) = color_rgba c in
    String.concat " " [
      "e1=" ^ encs (match encode1 c with None -> None | Some x -> Some [x]);
      "e2=" ^ encs (encode2 c); "e3=" ^ encs (encode3direct c); "e4=" ^ encs (encode4 c);
      "e3i=" ^ encs (encode3indirect c);
      "rgba=" ^ hex_of_rgba r ^ "," ^ (if ok then "true" else "false") ]);
  reg "RS" (fun a ->
    hex_of_rgba (resolve (pal_of_tok (List.nth a 1)) (pal_of_tok (List.nth a 2)) (color_of_tok (List.nth a 0))));
  reg "EGR" (fun a ->
    match List.map z_of_dec a with
    | [cb; nb; sh; sp; ns] -> hex_of_rgba (encode_gradient cb nb sh sp ns)
    | _ -> failwith "EGR");
  reg "DGR" (fun a ->
    let c = rgba_of_hex (List.nth a 0) in
    let g = decode_gradient c in
    Printf.sprintf "%d %d %d %d %d premul=%b grad=%b" (int_of_z g.gp_cbase) (int_of_z g.gp_nbase) (int_of_z g.gp_shape)
      (int_of_z g.gp_spread) (int_of_z g.gp_nstops) (valid_premul c) (valid_gradient c))


(* ---- pixel-level metamorphic checks (C16): pixels are not modelled; the model states the expected verdict ---- *)
let () =
  reg "PIXOFF" (fun _ -> "offset=same outside=untouched");
  reg "PIXEQ" (fun _ -> "pixels=same");
  reg "PIXOP" (fun a ->
    match a with
    | _ :: w :: h :: toks ->
        let s = run_ren "0" "0" w h toks in
        let n = List.length (List.filter (fun c -> match c with RDraw _ -> true | _ -> false) s.r_log) in
        Printf.sprintf "drawop=first-only paths=%d" n
    | _ -> failwith "PIXOP")


(* ---- SVG path data front ends ---- *)
let str_of_hex h = bytes_of_hex h   (* a string is its list of bytes *)

let transform_of_tok (t : string) : z list option =
  if t = "-" then None
  else
    let one s =
      match String.split_on_char ':' s with
      | ["T"; a] -> (match String.split_on_char ',' a with [x; y] -> translate (z_of_hex x) (z_of_hex y) | _ -> failwith "T")
      | ["S"; a] -> (match String.split_on_char ',' a with [x; y] -> scale2 (z_of_hex x) (z_of_hex y) | _ -> failwith "S")
      | ["M"; a] -> List.map z_of_hex (String.split_on_char ',' a)
      | _ -> failwith ("bad transform " ^ s) in
    Some (concat (List.map one (String.split_on_char ';' t)))

let () =
  reg "SPD" (fun a ->
    match a with
    | [adj; tr; hx] ->
        (* a "/"-separated history of SetTransform calls: the last one is in force *)
        let segs = String.split_on_char '/' tr in
        let last = List.hd (List.rev segs) in
        (* SetTransform() without arguments installs the identity (Concat of nothing); never calling it leaves none *)
        let trf = if List.length segs > 1 && last = "-" then Some (concat []) else transform_of_tok last in
        let (cs, o) = set_path_data trf (str_of_hex hx) (z_of_dec adj) in
        let os = match o with
          | PDOk -> "OK" | PDErrVerb v -> "ERRVERB" ^ dec_of_z v | PDErrNumber -> "ERRNUM" | PDPanic -> "PANIC" in
        os ^ " | " ^ str_of_calls cs
    | _ -> failwith "SPD");
  (* MDP size ox oy out (P opacity|- hexd|- circles|-)* *)
  reg "MDP" (fun a ->
    match a with
    | size :: ox :: oy :: out :: rest ->
        let rec go adjs toks acc =
          match toks with
          | "P" :: op :: d :: cs :: r ->
              let opacity = if op = "-" then None else Some (z_of_hex op) in
              let dstr = if d = "-" then [] else str_of_hex d in
              let circles = if cs = "-" then [] else
                List.map (fun c -> match String.split_on_char ',' c with
                  | [x; y; r] -> { ci_cx = z_of_hex x; ci_cy = z_of_hex y; ci_r = z_of_hex r } | _ -> failwith "circle")
                  (String.split_on_char ';' cs) in
              let ((calls, adjs'), ok) = md_parse_path adjs opacity dstr (z_of_hex size) (z_of_hex ox) (z_of_hex oy) (z_of_hex out) circles in
              go adjs' r (acc @ [(if ok then "ok" else "ERR") ^ " " ^ str_of_calls calls])
          | [] -> (adjs, acc)
          | _ -> failwith "MDP" in
        let (adjs, outs) = go [] rest [] in
        String.concat " ;; " outs ^ " | adjs=" ^ String.concat "," (List.map (fun (k, v) -> f32s k ^ ":" ^ dec_of_z v) adjs)
    | _ -> failwith "MDP")

let () =
  let out = Buffer.create (1 lsl 16) in
  (try
    while true do
      let line = input_line stdin in
      match String.split_on_char ' ' line |> List.filter (fun s -> s <> "") with
      | id :: kind :: args ->
          let r =
            match Hashtbl.find_opt handlers kind with
            | None -> "UNKNOWN-KIND " ^ kind
            | Some h -> (try h args with e -> "MODEL-EXN " ^ Printexc.to_string e) in
          Buffer.add_string out id; Buffer.add_char out ' ';
          Buffer.add_string out r; Buffer.add_char out '\n';
          if Buffer.length out > (1 lsl 16) then (print_string (Buffer.contents out); Buffer.clear out)
      | _ -> ()
    done
  with End_of_file -> ());
  print_string (Buffer.contents out)

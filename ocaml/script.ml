(* Parsing and printing of calls / actions in the shared script syntax. *)
open Model
open Util

let hex2 s i = z_of_int (int_of_string ("0x" ^ String.sub s i 2))

let rgba_of_hex (s : string) : rgba =
  { cr = hex2 s 0; cg = hex2 s 2; cb = hex2 s 4; ca = hex2 s 6 }

let hex_of_rgba (c : rgba) : string =
  Printf.sprintf "%02x%02x%02x%02x" (int_of_z c.cr) (int_of_z c.cg) (int_of_z c.cb) (int_of_z c.ca)

let color_of_tok (s : string) : color =
  match s.[0] with
  | '#' -> CRGBA (rgba_of_hex (String.sub s 1 8))
  | 'p' -> palette_index_color (z_of_int (int_of_string (String.sub s 1 (String.length s - 1))))
  | 'c' -> creg_color (z_of_int (int_of_string (String.sub s 1 (String.length s - 1))))
  | 'b' -> CBlend (hex2 s 1, hex2 s 3, hex2 s 5)
  | _ -> failwith ("bad color " ^ s)

let tok_of_color (c : color) : string =
  match c with
  | CRGBA d -> "#" ^ hex_of_rgba d
  | CPal i -> "p" ^ string_of_int (int_of_z i)
  | CCReg i -> "c" ^ string_of_int (int_of_z i)
  | CBlend (t, c0, c1) -> Printf.sprintf "b%02x%02x%02x" (int_of_z t) (int_of_z c0) (int_of_z c1)

let black : rgba = { cr = Z0; cg = Z0; cb = Z0; ca = z_of_int 255 }

let pal_of_tok (s : string) : rgba list =
  let a = Array.make 64 black in
  if s <> "-" then
    List.iter (fun e ->
      match String.split_on_char ':' e with
      | [i; c] -> a.(int_of_string i) <- rgba_of_hex c
      | _ -> failwith ("bad palette " ^ s)) (String.split_on_char ',' s);
  Array.to_list a

let tok_of_pal (p : rgba list) : string =
  let l = List.mapi (fun i c -> (i, c)) p |> List.filter (fun (_, c) -> c <> black) in
  if l = [] && List.length p = 64 then "-"
  else if List.length p <> 64 then "LEN" ^ string_of_int (List.length p)
  else String.concat "," (List.map (fun (i, c) -> Printf.sprintf "%d:%s" i (hex_of_rgba c)) l)

let arity (c : char) : int =
  match c with
  | 'H' | 'h' | 'V' | 'v' -> 1
  | 'L' | 'l' | 'T' | 't' | 'Y' | 'y' -> 2
  | 'Q' | 'q' | 'S' | 's' -> 4
  | 'C' | 'c' -> 6
  | _ -> failwith "arity"

let rec take n l = if n = 0 then ([], l) else match l with x :: r -> let (a, b) = take (n-1) r in (x :: a, b) | [] -> failwith "take: script too short"

(* parse a token list into actions *)
let rec acts_of_toks (t : string list) : eact list =
  match t with
  | [] -> []
  | "R" :: a :: b :: c :: d :: p :: r ->
      ACall (CReset ({ vminx = z_of_hex a; vminy = z_of_hex b; vmaxx = z_of_hex c; vmaxy = z_of_hex d }, pal_of_tok p)) :: acts_of_toks r
  | "H0" :: r -> AHiRes false :: acts_of_toks r
  | "H1" :: r -> AHiRes true :: acts_of_toks r
  | "CS" :: n :: r -> ACall (CSetCSel (z_of_dec n)) :: acts_of_toks r
  | "NS" :: n :: r -> ACall (CSetNSel (z_of_dec n)) :: acts_of_toks r
  | "CR" :: adj :: incr :: c :: r -> ACall (CSetCReg (z_of_dec adj, incr = "1", color_of_tok c)) :: acts_of_toks r
  | "NR" :: adj :: incr :: f :: r -> ACall (CSetNReg (z_of_dec adj, incr = "1", z_of_hex f)) :: acts_of_toks r
  | "LOD" :: a :: b :: r -> ACall (CSetLOD (z_of_hex a, z_of_hex b)) :: acts_of_toks r
  | "SP" :: adj :: x :: y :: r -> ACall (CStartPath (z_of_dec adj, z_of_hex x, z_of_hex y)) :: acts_of_toks r
  | "Z" :: r -> ACall CEndPath :: acts_of_toks r
  | ("A" | "a" as k) :: rx :: ry :: rot :: fl :: x :: y :: r ->
      let f = int_of_string fl in
      ACall (CArc (k = "a", z_of_hex rx, z_of_hex ry, z_of_hex rot, f land 1 <> 0, f land 2 <> 0, z_of_hex x, z_of_hex y)) :: acts_of_toks r
  | "rc" :: r -> AReadCSel :: acts_of_toks r
  | "rn" :: r -> AReadNSel :: acts_of_toks r
  | "rl" :: r -> AReadLOD :: acts_of_toks r
  | "B" :: r -> ABytes :: acts_of_toks r
  | k :: r when String.length k = 1 ->
      let n = arity k.[0] in
      let (args, r') = take n r in
      ACall (CDraw (z_of_int (Char.code k.[0]), List.map z_of_hex args)) :: acts_of_toks r'
  | k :: _ -> failwith ("bad token " ^ k)

let toks_of_call (c : call) : string list =
  match c with
  | CReset (vb, pal) -> ["R"; f32s vb.vminx; f32s vb.vminy; f32s vb.vmaxx; f32s vb.vmaxy; tok_of_pal pal]
  | CSetCSel s -> ["CS"; dec_of_z s]
  | CSetNSel s -> ["NS"; dec_of_z s]
  | CSetCReg (adj, incr, c) -> ["CR"; dec_of_z adj; (if incr then "1" else "0"); tok_of_color c]
  | CSetNReg (adj, incr, f) -> ["NR"; dec_of_z adj; (if incr then "1" else "0"); f32s f]
  | CSetLOD (a, b) -> ["LOD"; f32s a; f32s b]
  | CStartPath (adj, x, y) -> ["SP"; dec_of_z adj; f32s x; f32s y]
  | CDraw (op, args) -> String.make 1 (Char.chr (int_of_z op)) :: List.map f32s args
  | CArc (rel, rx, ry, rot, large, sweep, x, y) ->
      [(if rel then "a" else "A"); f32s rx; f32s ry; f32s rot;
       string_of_int ((if large then 1 else 0) + (if sweep then 2 else 0)); f32s x; f32s y]
  | CEndPath -> ["Z"]

let str_of_calls (l : call list) : string =
  String.concat " " (List.concat_map toks_of_call l)

let derr_code (e : derr) : int =
  match e with
  | EInconsistentMetadataChunkLength -> 1 | EInvalidColor -> 2 | EInvalidMagicIdentifier -> 3
  | EInvalidMetadataChunkLength -> 4 | EInvalidMetadataIdentifier -> 5 | EInvalidNumber -> 6
  | EInvalidNumberOfMetadataChunks -> 7 | EInvalidSuggestedPalette -> 8 | EInvalidViewBox -> 9
  | EUnsupportedDrawingOpcode -> 10 | EUnsupportedMetadataIdentifier -> 11 | EUnsupportedStylingOpcode -> 12

let str_of_outcome (o : outcome) : string =
  match o with
  | Done -> "OK"
  | Fail e -> "ERR" ^ string_of_int (derr_code e)
  | Panic -> "PANIC"
  | OutOfFuel -> "OUTOFFUEL"

let eerr_code (e : eerr) : int =
  match e with
  | EDrawingOpsInStyling -> 1 | EInvalidSelectorAdjustment -> 2
  | EInvalidIncrementingAdjustment -> 3 | EStylingOpsInDrawing -> 4

let str_of_obs (o : eobs) : string option =
  match o with
  | ONone -> None
  | OSel v -> Some ("s=" ^ dec_of_z v)
  | OLod (a, b) -> Some ("lod=" ^ f32s a ^ "," ^ f32s b)
  | OBytes (BytesOk b) -> Some ("B=" ^ hex_of_bytes b)
  | OBytes (BytesErr e) -> Some ("B=ERR" ^ string_of_int (eerr_code e))

let opts_of_toks (t : string list) : dopt list =
  List.map (fun s ->
    if String.length s > 3 && String.sub s 0 3 = "OP:" then OPalette (pal_of_tok (String.sub s 3 (String.length s - 3)))
    else if String.length s > 3 && String.sub s 0 3 = "OI:" then
      (match String.split_on_char ':' s with
       | [_; i; c] -> OColorAt (z_of_dec i, rgba_of_hex c)
       | _ -> failwith ("bad opt " ^ s))
    else if String.length s > 3 && String.sub s 0 3 = "OJ:" then
      (match String.split_on_char ':' s with
       | [_; i; _; _; c] -> OColorAt (z_of_dec i, rgba_of_hex c)
       | _ -> failwith ("bad opt " ^ s))
    else failwith ("bad opt " ^ s)) t

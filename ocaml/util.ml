(* Conversions between OCaml values and the extracted Coq datatypes. *)
open Model

let rec pos_of_int (n : int) : positive =
  if n = 1 then XH
  else if n land 1 = 0 then XO (pos_of_int (n lsr 1))
  else XI (pos_of_int (n lsr 1))

let z_of_int (n : int) : z =
  if n = 0 then Z0 else if n > 0 then Zpos (pos_of_int n) else Zneg (pos_of_int (- n))

let rec int_of_pos (p : positive) : int =
  match p with XH -> 1 | XO q -> 2 * int_of_pos q | XI q -> 2 * int_of_pos q + 1

let int_of_z (x : z) : int =
  match x with Z0 -> 0 | Zpos p -> int_of_pos p | Zneg p -> - (int_of_pos p)

let rec nat_of_int n = if n <= 0 then O else S (nat_of_int (n - 1))
let rec int_of_nat = function O -> 0 | S n -> 1 + int_of_nat n

(* hex string (any length) to Z *)
let z_of_hex (s : string) : z =
  let acc = ref Z0 in
  let sixteen = z_of_int 16 in
  String.iter (fun c ->
    let d = match c with
      | '0'..'9' -> Char.code c - 48
      | 'a'..'f' -> Char.code c - 87
      | 'A'..'F' -> Char.code c - 55
      | _ -> failwith ("bad hex " ^ s) in
    acc := Z.add (Z.mul !acc sixteen) (z_of_int d)) s;
  !acc

(* Z (non-negative) to hex string of at least w digits *)
let hex_of_z (w : int) (x : z) : string =
  let rec go p acc =
    match p with
    | XH -> 1 :: acc |> fun l -> l
    | XO q -> go q (0 :: acc)
    | XI q -> go q (1 :: acc) in
  let bits = match x with Z0 -> [] | Zpos p -> go p [] | Zneg _ -> failwith "hex_of_z: negative" in
  (* bits: most significant first *)
  let n = List.length bits in
  let pad = (4 - n mod 4) mod 4 in
  let bits = List.init pad (fun _ -> 0) @ bits in
  let buf = Buffer.create 16 in
  let rec emit = function
    | a :: b :: c :: d :: r ->
        Buffer.add_char buf "0123456789abcdef".[8*a + 4*b + 2*c + d]; emit r
    | [] -> ()
    | _ -> assert false in
  emit bits;
  let s = Buffer.contents buf in
  let l = String.length s in
  if l >= w then s else String.make (w - l) '0' ^ s

let f32s x = hex_of_z 8 x
let f64s x = hex_of_z 16 x

let z_of_dec (s : string) : z =
  let neg = String.length s > 0 && s.[0] = '-' in
  let s' = if neg then String.sub s 1 (String.length s - 1) else s in
  let acc = ref Z0 in
  let ten = z_of_int 10 in
  String.iter (fun c -> acc := Z.add (Z.mul !acc ten) (z_of_int (Char.code c - 48))) s';
  if neg then Z.opp !acc else !acc

let dec_of_z (x : z) : string =
  (* small values only are printed in decimal in practice; do it generally *)
  let ten = z_of_int 10 in
  let rec go x acc =
    if x = Z0 then acc
    else go (Z.div x ten) (string_of_int (int_of_z (Z.modulo x ten)) ^ acc) in
  match x with
  | Z0 -> "0"
  | Zpos _ -> go x ""
  | Zneg _ -> "-" ^ go (Z.opp x) ""

let bytes_of_hex (s : string) : z list =
  if s = "-" then []
  else
    let n = String.length s / 2 in
    List.init n (fun i -> z_of_int (int_of_string ("0x" ^ String.sub s (2*i) 2)))

let hex_of_bytes (l : z list) : string =
  if l = [] then "-"
  else String.concat "" (List.map (fun b -> Printf.sprintf "%02x" (int_of_z b)) l)

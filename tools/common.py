"""Shared machinery for the ivg verification checks (python3, stdlib only)."""
import fcntl
import hashlib
import json
import os
import re
import subprocess
import sys
import time

VERIF = os.path.dirname(os.path.dirname(os.path.abspath(__file__)))
REPO = os.environ.get("VERIF_REPO", "/repo")
BUILD = os.path.join(VERIF, "build")
COQ = os.path.join(VERIF, "coq")
NPROC = min(16, os.cpu_count() or 4)

GOENV = dict(os.environ, GOFLAGS="-mod=mod", GOPROXY="off", GOSUMDB="off",
             GOTOOLCHAIN="local", CGO_ENABLED="0")

ALLOWED_AXIOMS = {
    # axioms of the standard library's Reals (only theorems stated over R may use them)
    "ClassicalDedekindReals.sig_forall_dec",
    "ClassicalDedekindReals.sig_not_dec",
    "FunctionalExtensionality.functional_extensionality_dep",
    "Classical_Prop.classic",
}

FORBIDDEN = re.compile(
    r"\b(Admitted|admit|Axiom|Axioms|Parameter|Parameters|Conjecture|Hypothesis|Hypotheses|Variable|Variables)\b"
    r"|Unset\s+Guard|bypass_check|type-in-type|impredicative-set|Admit Obligations|Unset Universe Checking"
    r"|Unset Positivity")


class BuildError(Exception):
    def __init__(self, stage, output, failed_file=None):
        super().__init__(stage)
        self.stage = stage
        self.output = output
        self.failed_file = failed_file


def log(*a):
    print(*a, file=sys.stderr, flush=True)


def sh(cmd, cwd=None, env=None, timeout=None, check=True, input=None):
    p = subprocess.run(cmd, cwd=cwd, env=env, timeout=timeout, input=input,
                       stdout=subprocess.PIPE, stderr=subprocess.STDOUT, text=True)
    if check and p.returncode != 0:
        raise BuildError(" ".join(cmd[:3]), p.stdout)
    return p


class Lock:
    def __enter__(self):
        os.makedirs(BUILD, exist_ok=True)
        self.f = open(os.path.join(BUILD, ".lock"), "w")
        fcntl.flock(self.f, fcntl.LOCK_EX)
        return self

    def __exit__(self, *a):
        fcntl.flock(self.f, fcntl.LOCK_UN)
        self.f.close()


def write_if_changed(path, content):
    try:
        if open(path).read() == content:
            return False
    except FileNotFoundError:
        pass
    os.makedirs(os.path.dirname(path), exist_ok=True)
    with open(path, "w") as f:
        f.write(content)
    return True


# --------------------------------------------------------------------------
# building

def build_harness():
    """Builds the Go harness against /repo's working tree with the verif tag."""
    hd = os.path.join(VERIF, "harness")
    write_if_changed(os.path.join(hd, "go.sum"), open(os.path.join(REPO, "go.sum")).read())
    p = sh(["go", "build", "-tags", "verif", "-o", os.path.join(BUILD, "harness"), "."],
           cwd=hd, env=GOENV, timeout=600, check=False)
    if p.returncode != 0:
        raise BuildError("go build harness", p.stdout)


def gen_tables():
    """Regenerates coq/gen/*.v from /repo's sources (translator for literal tables)."""
    exe = os.path.join(BUILD, "harness")
    p = sh([exe, "-tables", REPO], timeout=120, check=False)
    if p.returncode != 0:
        raise BuildError("table extraction", p.stdout)
    ch = write_if_changed(os.path.join(COQ, "gen", "Tables.v"), p.stdout)
    p = sh([exe, "-footprint", REPO], timeout=300, check=False, env=GOENV, cwd=os.path.join(VERIF, "harness"))
    if p.returncode != 0:
        raise BuildError("footprint extraction", p.stdout)
    ch2 = write_if_changed(os.path.join(COQ, "gen", "Footprint.v"), p.stdout)
    # the Go-to-Gallina translator: the pure functions of color.go, encode/buffer.go, decode/buffer.go, ivg.go ...
    p = sh([exe, "-gosrc", REPO], timeout=300, check=False, env=GOENV, cwd=os.path.join(VERIF, "harness"))
    if p.returncode != 0:
        raise BuildError("source translation (harness -gosrc)", p.stdout)
    ch3 = write_if_changed(os.path.join(COQ, "gen", "GoSrc.v"), p.stdout)
    return ch or ch2 or ch3


def coq_files():
    out = []
    for line in open(os.path.join(COQ, "_CoqProject")):
        line = line.strip()
        if line.endswith(".v"):
            out.append(line)
    return out


def build_coq():
    """Full .vo build (never -vos).  Returns; raises BuildError with failed file."""
    if not os.path.exists(os.path.join(COQ, "Makefile")) or \
            os.path.getmtime(os.path.join(COQ, "Makefile")) < os.path.getmtime(os.path.join(COQ, "_CoqProject")):
        sh(["coq_makefile", "-f", "_CoqProject", "-o", "Makefile"], cwd=COQ)
    p = sh(["timeout", "3000", "make", "-j%d" % NPROC, "-k"], cwd=COQ, timeout=3100, check=False)
    if p.returncode != 0:
        failed = re.findall(r'File "\./([^"]+)", line', p.stdout)
        raise BuildError("coq make", p.stdout[-6000:], failed_file=failed)


def build_driver():
    """Extracts the model to OCaml and builds the driver, if the model changed."""
    od = os.path.join(BUILD, "ocaml")
    os.makedirs(od, exist_ok=True)
    src = [os.path.join(COQ, f) for f in coq_files() if f.startswith(("model/", "gen/", "spec/"))
           and not f.endswith(("GoSrc.v", "GoSem.v"))]   # the translated source is not extracted
    src += [os.path.join(COQ, "extract", "Extract.v"),
            os.path.join(VERIF, "ocaml", "util.ml"), os.path.join(VERIF, "ocaml", "script.ml"), os.path.join(VERIF, "ocaml", "driver.ml")]
    h = hashlib.sha256()
    for s in sorted(src):
        h.update(open(s, "rb").read())
    stamp = os.path.join(od, "stamp")
    exe = os.path.join(BUILD, "driver")
    if os.path.exists(exe) and os.path.exists(stamp) and open(stamp).read() == h.hexdigest():
        return
    p = sh(["timeout", "900", "coqc", "-R", COQ, "IVG", os.path.join(COQ, "extract", "Extract.v")],
           cwd=od, timeout=1000, check=False)
    if p.returncode != 0:
        raise BuildError("extraction", p.stdout)
    for f in ("util.ml", "script.ml", "driver.ml"):
        with open(os.path.join(od, f), "w") as o:
            o.write(open(os.path.join(VERIF, "ocaml", f)).read())
    p = sh(["ocamlfind", "ocamlopt", "-w", "-a", "-package", "str", "model.mli", "model.ml",
            "util.ml", "script.ml", "driver.ml", "-o", exe], cwd=od, timeout=900, check=False)
    if p.returncode != 0:
        raise BuildError("ocaml build", p.stdout)
    with open(stamp, "w") as f:
        f.write(h.hexdigest())


def setup_all():
    with Lock():
        build_harness()
        gen_tables()
        build_coq()
        build_driver()


# --------------------------------------------------------------------------
# proof audit

def audit_props(pid):
    """Re-checks props/<pid>.v with coqc, collecting theorems and Print Assumptions output.
    Returns dict(theorems=[...], axioms={thm: [...]}, ok=bool, problems=[...])."""
    f = os.path.join(COQ, "props", pid + ".v")
    res = dict(theorems=[], axioms={}, ok=True, problems=[], file="coq/props/%s.v" % pid)
    if not os.path.exists(f):
        res["ok"] = False
        res["problems"].append("missing " + f)
        return res
    src = open(f).read()
    res["theorems"] = re.findall(r"^\s*Theorem\s+(\w+)", src, re.M)
    p = sh(["timeout", "1200", "coqc", "-R", COQ, "IVG", f], cwd=COQ, timeout=1300, check=False)
    if p.returncode != 0:
        res["ok"] = False
        res["problems"].append("coqc failed on props/%s.v:\n%s" % (pid, p.stdout[-3000:]))
        return res
    # Print Assumptions output: either "Closed under the global context" or "Axioms:\n name : type..."
    blocks = re.split(r"(?m)^(?=Closed under the global context|Axioms:)", p.stdout)
    blocks = [b for b in blocks if b.startswith(("Closed", "Axioms:"))]
    prints = re.findall(r"^\s*Print Assumptions\s+(\w+)", src, re.M)
    if len(blocks) != len(prints) or set(prints) != set(res["theorems"]):
        res["ok"] = False
        res["problems"].append("Print Assumptions missing for some theorem (%d blocks, %d prints, %d theorems)"
                               % (len(blocks), len(prints), len(res["theorems"])))
    for name, b in zip(prints, blocks):
        if b.startswith("Closed"):
            res["axioms"][name] = []
        else:
            ax = re.findall(r"^(\S+)\s*:", b, re.M)
            ax = [a for a in ax if a != "Axioms"]
            res["axioms"][name] = ax
            bad = [a for a in ax if a not in ALLOWED_AXIOMS]
            if bad:
                res["ok"] = False
                res["problems"].append("theorem %s depends on non-allowed axioms %s" % (name, bad))
    return res


SECTION_ONLY = re.compile(r"\b(Hypothesis|Hypotheses|Variable|Variables)\b")
ALWAYS_FORBIDDEN = re.compile(
    r"\b(Admitted|admit|Axiom|Axioms|Parameter|Parameters|Conjecture)\b"
    r"|Unset\s+Guard|bypass_check|type-in-type|impredicative-set|Admit Obligations|Unset Universe Checking"
    r"|Unset Positivity")


def forbidden_scan():
    """Greps the Coq development for forbidden declarations / flags.  Variable / Hypothesis are allowed
    inside a Section only (they are discharged at End)."""
    hits = []
    for root, _, files in os.walk(COQ):
        for fn in files:
            if not fn.endswith(".v") and fn != "_CoqProject":
                continue
            path = os.path.join(root, fn)
            txt = open(path).read()
            txt2 = re.sub(r"\(\*.*?\*\)", "", txt, flags=re.S)
            for m in ALWAYS_FORBIDDEN.finditer(txt2):
                hits.append("%s: %s" % (os.path.relpath(path, VERIF), m.group(0)))
            stack = []
            for line in txt2.splitlines():
                ms = re.match(r"\s*(Section|Module)\s+(\w+)", line)
                if ms and not re.match(r"\s*Module\s+Type", line):
                    stack.append(ms.group(1))
                if re.match(r"\s*End\s+\w+\s*\.", line) and stack:
                    stack.pop()
                if SECTION_ONLY.search(line) and "Section" not in stack:
                    hits.append("%s: %s outside a section" % (os.path.relpath(path, VERIF), SECTION_ONLY.search(line).group(0)))
    return hits


# --------------------------------------------------------------------------
# running scripts

def _run_sharded(exe, lines, extra_env=None, timeout=3000):
    n = max(1, min(NPROC, len(lines) // 200 + 1))
    shards = [lines[i::n] for i in range(n)]
    procs = []
    env = dict(os.environ)
    if extra_env:
        env.update(extra_env)
    for s in shards:
        p = subprocess.Popen([exe], stdin=subprocess.PIPE, stdout=subprocess.PIPE,
                             stderr=subprocess.PIPE, text=True, env=env)
        procs.append((p, "\n".join(s) + "\n"))
    import threading
    outs = [None] * n

    def work(i):
        p, data = procs[i]
        try:
            o, e = p.communicate(data, timeout=timeout)
        except subprocess.TimeoutExpired:
            p.kill()
            o, e = p.communicate()
            e = (e or "") + "\nTIMEOUT"
        outs[i] = (o, e, p.returncode)
    ts = [threading.Thread(target=work, args=(i,)) for i in range(n)]
    for t in ts:
        t.start()
    for t in ts:
        t.join()
    res = {}
    for (o, e, rc), s in zip(outs, shards):
        for line in o.splitlines():
            k, _, v = line.partition(" ")
            res[k] = v
        if rc != 0:
            # the process died (crash that recover() could not catch): attribute to first missing case
            for l in s:
                k = l.split(" ", 1)[0]
                if k not in res:
                    res[k] = "CRASH " + (e or "").strip().splitlines()[-1][:200] if e.strip() else "CRASH"
                    break
    return res


def run_impl(lines):
    return _run_sharded(os.path.join(BUILD, "harness"), lines)


def run_model(lines):
    return _run_sharded(os.path.join(BUILD, "driver"), lines)


# --------------------------------------------------------------------------
# known findings

def load_known():
    p = os.path.join(VERIF, "known_findings.json")
    if not os.path.exists(p):
        return dict(findings=[], fixed=[])
    return json.load(open(p))


def match_known(pid, case_text, known):
    for k in known.get("findings", []):
        if k["property"] != pid:
            continue
        if re.search(k["match"], case_text):
            return k
    return None


# --------------------------------------------------------------------------
# PRNG (one stream per run)

class Rng:
    """xorshift64*; all random choices of a run derive from one seed."""

    def __init__(self, seed):
        self.s = (seed * 0x9E3779B97F4A7C15 + 0x1234567) & (2**64 - 1) or 1
        for _ in range(4):
            self.next()

    def next(self):
        x = self.s
        x ^= x >> 12
        x ^= (x << 25) & (2**64 - 1)
        x ^= x >> 27
        self.s = x
        return (x * 0x2545F4914F6CDD1D) & (2**64 - 1)

    def below(self, n):
        return self.next() % n

    def range(self, lo, hi):
        return lo + self.below(hi - lo + 1)

    def choice(self, xs):
        return xs[self.below(len(xs))]

    def chance(self, num, den):
        return self.below(den) < num


# --------------------------------------------------------------------------
# float helpers

import struct


def f32_bits(x):
    return struct.unpack("<I", struct.pack("<f", x))[0]


def bits_f32(b):
    return struct.unpack("<f", struct.pack("<I", b & 0xffffffff))[0]


def f64_bits(x):
    return struct.unpack("<Q", struct.pack("<d", x))[0]


def bits_f64(b):
    return struct.unpack("<d", struct.pack("<Q", b))[0]


def h32(b):
    return "%08x" % (b & 0xffffffff)


def fh(x):
    """python float (rounded to float32) -> hex bits"""
    return h32(f32_bits(x))


def is_nan32(b):
    return (b & 0x7f800000) == 0x7f800000 and (b & 0x7fffff) != 0


def is_fin32(b):
    return (b & 0x7f800000) != 0x7f800000


def neighbours32(b, k=2):
    """bit patterns within k ulps (same sign, staying in [0,2^31) magnitude)"""
    out = []
    s = b & 0x80000000
    m = b & 0x7fffffff
    for d in range(-k, k + 1):
        mm = m + d
        if 0 <= mm <= 0x7fffffff:
            out.append(s | mm)
    return out

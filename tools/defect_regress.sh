#!/bin/bash
# Re-introduces each repaired defect (reverse-applies its fix: commit to /repo's working tree, nothing is
# committed), runs the checks that should see it, and restores the tree.  Output: one line per defect.
cd /verif
run() { # commit props...
  c=$1; shift
  git -C /repo diff $c^ $c | git -C /repo apply -R || { echo "$c: fix does not reverse-apply"; return; }
  for p in "$@"; do
    out=$(./check $p --tier quick 2>/dev/null | grep -E "^(VIOLATION|KNOWN-FINDING|$p ok)" | head -2 | tr '\n' ' ')
    echo "$c $p: $out"
  done
  git -C /repo checkout -- .
}
run 628fdb7 C08 C01
run 8929449 C10
run 6095a97 C01
run fec96b3 C03 C13
run f7d00b1 C09 C01
run 0257eb6 C07 C19
run 08bf57e C14
run 2ae05cb C06
run ce62a10 C15
run 472a87b C19
run 0ee5543 C07 C19 C04
./check C08 --tier quick >/dev/null 2>&1   # leave build products for the unchanged tree

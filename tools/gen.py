"""Generators shared by the property modules: floats, colours, palettes, programs, byte streams."""
from . import common as C

MAGIC = "89495647"
VERBS = {"L": 2, "l": 2, "T": 2, "t": 2, "Q": 4, "q": 4, "S": 4, "s": 4, "C": 6, "c": 6,
         "H": 1, "h": 1, "V": 1, "v": 1, "Y": 2, "y": 2}
MAXREP = {"L": 32, "l": 32, "T": 16, "t": 16, "Q": 16, "q": 16, "S": 16, "s": 16, "C": 16, "c": 16, "A": 16, "a": 16}
SPECIAL = [0x00000000, 0x80000000, 0x7f800000, 0xff800000, 0x7fc00000, 0x7f800001, 0x00000001, 0x80000001,
           0x7f7fffff, 0xff7fffff, 0x3f800000, 0xbf800000, 0x43000000, 0xc3000000, 0x42fffffe, 0x42ffffff,
           0xc3000001, 0x3bffffff, 0x3c000000, 0x3c000001]


def rfloat(rng, moderate=False):
    """float32 bit pattern from a mix of classes"""
    r = rng.below(20)
    if r < 5:      # small integer
        return C.f32_bits(float(rng.range(-70, 70)))
    if r < 9:      # multiple of 1/64 in +-128
        return C.f32_bits(rng.range(-8200, 8200) / 64.0)
    if r < 12:     # arbitrary in +-130
        return C.f32_bits((rng.below(1 << 24) / float(1 << 24) - 0.5) * 260)
    if r < 14:     # near a half step (quantisation ties)
        k = rng.range(-8193, 8192)
        return C.f32_bits((k + 0.5) / 64.0) + rng.range(-2, 2)
    if r < 15:     # zero-to-one lattice
        return (C.f32_bits(rng.below(15121) / 15120.0) + rng.range(-1, 1)) & 0xffffffff
    if r < 17:     # larger integers / magnitudes
        return C.f32_bits(float(rng.choice([127, 128, 129, 255, 16383, 16384, 65536, 1 << 24, -129, -8192, 1000.5])))
    if moderate:
        return C.f32_bits(rng.range(-2000, 2000) / 16.0)
    if r < 18:
        return rng.choice(SPECIAL)
    return rng.below(1 << 32)


def rfinite(rng):
    while True:
        b = rfloat(rng)
        if C.is_fin32(b):
            return b


def rrgba(rng):
    r = rng.below(12)
    lv1 = [0x00, 0x40, 0x80, 0xc0, 0xff]
    if r < 3:      # 1-byte encodable opaque
        return "%02x%02x%02xff" % (rng.choice(lv1), rng.choice(lv1), rng.choice(lv1))
    if r == 3:     # the special translucent 1-byte colours and look-alikes
        return rng.choice(["00000000", "80808080", "c0c0c0c0", "40404040", "c0c0c0ff", "404040c0", "80808040", "ffffff80"])
    if r < 6:      # 2-byte encodable
        a = rng.below(16)
        return "%02x%02x%02x%02x" % (0x11 * rng.below(a + 1), 0x11 * rng.below(a + 1), 0x11 * rng.below(a + 1), 0x11 * a)
    if r < 8:      # opaque
        return "%02x%02x%02xff" % (rng.below(256), rng.below(256), rng.below(256))
    if r < 10:     # premultiplied translucent
        a = rng.below(256)
        return "%02x%02x%02x%02x" % (rng.below(a + 1), rng.below(a + 1), rng.below(a + 1), a)
    if r == 10:    # gradient-looking
        return "%02x%02x%02x00" % (rng.below(64), rng.below(256), 0x80 | rng.below(128))
    return "%08x" % rng.below(1 << 32)   # anything (often non-premultiplied)


def rpremul(rng):
    while True:
        s = rrgba(rng)
        r, g, b, a = (int(s[i:i + 2], 16) for i in (0, 2, 4, 6))
        if r <= a and g <= a and b <= a:
            return s


def rcolor(rng):
    r = rng.below(10)
    if r < 5:
        return "#" + rrgba(rng)
    if r < 7:
        return "p%d" % rng.choice([0, 1, 2, 31, 62, 63, rng.below(64), rng.choice([64, 69, 127, 128, 197, 255])])
    if r < 9:
        return "c%d" % rng.choice([0, 1, 2, 31, 62, 63, rng.below(64), rng.choice([64, 69, 127, 128, 197, 255])])
    if rng.below(3) == 0:
        # blends whose three bytes look like another colour form's bytes (nibble-doubled, on the 1-byte grid, all equal)
        k = rng.below(3)
        if k == 0:
            b3 = [0x11 * rng.below(16) for _ in range(3)]
        elif k == 1:
            b3 = [rng.choice([0x00, 0x40, 0x80, 0xc0, 0xff]) for _ in range(3)]
        else:
            b3 = [rng.below(256)] * 3
        return "b%02x%02x%02x" % tuple(b3)
    return "b%02x%02x%02x" % (rng.choice([0, 1, 64, 127, 128, 191, 254, 255, rng.below(256)]), rng.below(256), rng.below(256))


def rpalette(rng, premul=True, default_ok=True):
    r = rng.below(8)
    if r == 0 and default_ok:
        return "-"
    n = rng.choice([1, 1, 2, 3, 5, 17, 62, 63, 64])
    mk = rpremul if premul else rrgba
    style = rng.below(5)
    ents = []
    idxs = sorted(set([n - 1] + [rng.below(n) for _ in range(rng.range(0, min(n, 8)))]))
    for i in idxs:
        if style == 0:
            lv1 = [0x00, 0x40, 0x80, 0xc0, 0xff]
            c = rng.choice(["%02x%02x%02xff" % (rng.choice(lv1), rng.choice(lv1), rng.choice(lv1)), "00000000", "80808080", "c0c0c0c0", "40404040"])
        elif style == 1:
            a = rng.below(16)
            c = "%02x%02x%02x%02x" % (0x11 * rng.below(a + 1), 0x11 * rng.below(a + 1), 0x11 * rng.below(a + 1), 0x11 * a)
        elif style == 2:
            c = "%02x%02x%02xff" % (rng.below(256), rng.below(256), rng.below(256))
        else:
            c = mk(rng)
        if c == "000000ff" and i == n - 1:
            c = "010000ff"
        if c != "000000ff":
            ents.append("%d:%s" % (i, c))
    return ",".join(ents) if ents else "-"


EXTREME = [0x7f7fffff, 0xff7fffff, 0x7f000000, 0xff000000, 0x7effffff, 0xfeffffff, 0x7f61b1e6, 0xff61b1e6,
           0x00000000, 0x80000000, 0x00000001, 0x80000001, 0x00800000, 0x80800000, 0x3f800000, 0xbf800000]


def rviewbox(rng, valid=True):
    r = rng.below(7)
    if r == 0:
        return ["c2000000", "c2000000", "42000000", "42000000"]
    if r == 6:
        # finite coordinates of extreme magnitude: the width / height may overflow float32 although every corner is finite
        xs = sorted((C.bits_f32(rng.choice(EXTREME)) for _ in range(2)))
        ys = sorted((C.bits_f32(rng.choice(EXTREME)) for _ in range(2)))
        return [C.h32(C.f32_bits(xs[0])), C.h32(C.f32_bits(ys[0])), C.h32(C.f32_bits(xs[1])), C.h32(C.f32_bits(ys[1]))]
    while True:
        if r < 4:
            xs = sorted(rng.range(-300, 300) / 2.0 for _ in range(2))
            ys = sorted(rng.range(-300, 300) / 2.0 for _ in range(2))
            v = [C.f32_bits(xs[0]), C.f32_bits(ys[0]), C.f32_bits(xs[1]), C.f32_bits(ys[1])]
        else:
            v = [rfloat(rng) for _ in range(4)]
        if not valid:
            return [C.h32(x) for x in v]
        f = [C.bits_f32(x) for x in v]
        if all(C.is_fin32(x) for x in v) and f[0] <= f[2] and f[1] <= f[3]:
            return [C.h32(x) for x in v]
        r = 1


def fl(rng):
    return C.h32(rfloat(rng))


def styling_op(rng, bad=False):
    r = rng.below(12)
    adj = rng.below(7)
    incr = rng.below(4) == 0
    if incr:
        adj = 0
    if bad:
        k = rng.below(3)
        if k == 0:
            adj = rng.choice([7, 8, 200, 255])
            incr = False
        elif k == 1:
            adj, incr = rng.range(1, 6), True
        else:
            adj, incr = rng.choice([7, 9]), True
    if r < 2:
        return ["CS", str(rng.choice([0, 1, 62, 63, 64, 65, 127, 255, rng.below(256)]))]
    if r < 4:
        return ["NS", str(rng.choice([0, 1, 62, 63, 64, 65, 127, 255, rng.below(256)]))]
    if r < 8:
        return ["CR", str(adj), "1" if incr else "0", rcolor(rng)]
    if r < 11:
        return ["NR", str(adj), "1" if incr else "0", fl(rng)]
    return ["LOD", fl(rng), fl(rng)]


def draw_op(rng, verb=None):
    v = verb or rng.choice(list(VERBS) + ["A", "a"])
    if v in ("A", "a"):
        return [v, fl(rng), fl(rng), fl(rng), str(rng.below(4)), fl(rng), fl(rng)]
    return [v] + [fl(rng) for _ in range(VERBS[v])]


def path(rng, long_runs=True, end=True):
    t = ["SP", str(rng.below(7)), fl(rng), fl(rng)]
    nruns = rng.range(0, 5)
    for _ in range(nruns):
        v = rng.choice(list(VERBS) + ["A", "a"])
        if long_runs and rng.below(4) == 0 and v in MAXREP:
            m = MAXREP[v]
            n = rng.choice([m - 1, m, m + 1, 2 * m, 2 * m + 1])
        else:
            n = rng.range(1, 4)
        for _ in range(n):
            t += draw_op(rng, v)
    if end:
        t.append("Z")
    return t


def program(rng, reset=None, hires=True, long_runs=True, valid_meta=True):
    """A protocol-respecting encoder script (token list), every path ended."""
    t = []
    if reset is None:
        reset = rng.below(4) != 0
    if reset:
        t += ["R"] + rviewbox(rng, valid=valid_meta) + [rpalette(rng, premul=valid_meta)]
    for _ in range(rng.range(0, 4)):
        for _ in range(rng.range(0, 4)):
            t += styling_op(rng)
        if hires and rng.below(3) == 0:
            t.append(rng.choice(["H0", "H1"]))
        t += path(rng, long_runs)
    for _ in range(rng.range(0, 2)):
        t += styling_op(rng)
    return t


# ---- byte streams at the grammar level (forms chosen freely, also non-canonical) ----

def natural_bytes(u, width=None):
    if width is None:
        width = 1 if u < 128 else 2 if u < 16384 else 4
    if width == 1:
        return "%02x" % ((u << 1) & 0xff)
    if width == 2:
        v = ((u << 2) | 1) & 0xffff
        return "%02x%02x" % (v & 255, v >> 8)
    v = ((u << 2) | 3) & 0xffffffff
    return "%02x%02x%02x%02x" % (v & 255, (v >> 8) & 255, (v >> 16) & 255, v >> 24)


def rnumber_bytes(rng):
    """a well-formed number operand of random width and content"""
    w = rng.choice([1, 1, 2, 2, 4])
    if w == 1:
        return "%02x" % (rng.below(128) << 1)
    if w == 2:
        return "%02x%02x" % ((rng.below(64) << 2) | 1, rng.below(256))
    if rng.below(3) == 0:
        b = rfloat(rng)
        v = (b & ~3) | 3
        return "%02x%02x%02x%02x" % (v & 255, (v >> 8) & 255, (v >> 16) & 255, v >> 24)
    return "%02x%02x%02x%02x" % ((rng.below(64) << 2) | 3, rng.below(256), rng.below(256), rng.below(256))


def rcolor_bytes(rng, form):
    n = [1, 2, 3, 4, 3][form]
    return "".join("%02x" % rng.below(256) for _ in range(n))


def styling_bytes(rng):
    r = rng.below(10)
    if r < 2:
        return "%02x" % rng.below(0x80)
    if r < 6:
        form = rng.below(5)
        return "%02x" % (0x80 + 8 * form + rng.below(8)) + rcolor_bytes(rng, form)
    if r < 9:
        return "%02x" % (0xa8 + 8 * rng.below(3) + rng.below(8)) + rnumber_bytes(rng)
    return "c7" + rnumber_bytes(rng) + rnumber_bytes(rng)


def drawing_bytes(rng):
    r = rng.below(10)
    if r < 6:
        op = rng.below(0xe0)
        hi = op >> 4
        nreps = 1 + (op & 0x1f if hi < 4 else op & 0x0f)
        if nreps > 4 and rng.below(3):
            op = (op & 0xe0) if hi < 4 else (op & 0xf0)
            op |= rng.below(3)
            nreps = 1 + (op & 0x1f if hi < 4 else op & 0x0f)
        nco = [2, 2, 2, 2, 2, 2, 4, 4, 4, 4, 6, 6, 0, 0][hi]
        s = "%02x" % op
        for _ in range(nreps):
            if hi >= 12:
                s += rnumber_bytes(rng) + rnumber_bytes(rng) + rnumber_bytes(rng) + natural_bytes(rng.below(8), rng.choice([1, 2, 4])) + rnumber_bytes(rng) + rnumber_bytes(rng)
            else:
                s += "".join(rnumber_bytes(rng) for _ in range(nco))
        return s
    op = rng.choice([0xe2, 0xe3, 0xe6, 0xe7, 0xe8, 0xe9])
    n = 2 if op in (0xe2, 0xe3) else 1
    return "%02x" % op + "".join(rnumber_bytes(rng) for _ in range(n))


def metadata_bytes(rng, well_formed=True):
    r = rng.below(8)
    chunks = []
    if r in (1, 3, 4):     # viewBox
        body = natural_bytes(0, rng.choice([1, 1, 1, 2, 4]))
        vb = rviewbox(rng, valid=well_formed or rng.below(2) == 0)
        for h in vb:
            b = int(h, 16)
            f = C.bits_f32(b)
            k = f * 64
            if abs(f) < 64 and f == int(f) and rng.below(2):
                body += "%02x" % ((int(f) + 64) << 1)
            elif abs(k) < 8192 and k == int(k) and rng.below(3):
                u = int(k) + 8192
                v = (u << 2) | 1
                body += "%02x%02x" % (v & 255, v >> 8)
            else:
                v = (b & ~3) | 3
                body += "%02x%02x%02x%02x" % (v & 255, (v >> 8) & 255, (v >> 16) & 255, v >> 24)
        chunks.append(body)
    if r in (2, 3, 4, 5):  # palette
        body = natural_bytes(1, rng.choice([1, 1, 1, 2, 4]))
        n = rng.choice([0, 0, 1, 2, 5, 62, 63])
        form = rng.below(4)
        body += "%02x" % (n | (form << 6))
        for _ in range(n + 1):
            body += rcolor_bytes(rng, form)
        chunks.append(body)
    if r == 5 and not well_formed:
        chunks.reverse()
    if r == 6 and not well_formed:
        chunks = ["00" + "40404040", "00" + "40404040"]   # repeated MID
    out = natural_bytes(len(chunks), rng.choice([1, 1, 1, 2, 4]))
    for c in chunks:
        ln = len(c) // 2
        if not well_formed and rng.below(3) == 0:
            ln = max(0, ln + rng.choice([-3, -2, -1, 1, 2, 3, 64, 1 << 20]))
        out += natural_bytes(ln, rng.choice([None, None, 2, 4])) + c
    return out


def stream(rng, well_formed=True):
    s = MAGIC + metadata_bytes(rng, well_formed)
    for _ in range(rng.range(0, 4)):
        for _ in range(rng.range(0, 3)):
            s += styling_bytes(rng)
        s += "%02x" % (0xc0 + rng.below(7)) + rnumber_bytes(rng) + rnumber_bytes(rng)
        for _ in range(rng.range(0, 4)):
            s += drawing_bytes(rng)
        if rng.below(8) or not well_formed:
            s += "e1"
    for _ in range(rng.range(0, 2)):
        s += styling_bytes(rng)
    return s


def mutate(rng, h):
    """truncate / corrupt / splice a hex string"""
    b = bytearray.fromhex(h)
    r = rng.below(6)
    if not b:
        return h
    if r == 0:
        return bytes(b[:rng.below(len(b) + 1)]).hex() or "-"
    if r == 1:
        b[rng.below(len(b))] = rng.below(256)
    elif r == 2:
        b[rng.below(len(b))] ^= 1 << rng.below(8)
    elif r == 3:
        i = rng.below(len(b))
        del b[i:i + rng.range(1, 3)]
    elif r == 4:
        i = rng.below(len(b) + 1)
        b[i:i] = bytes(rng.below(256) for _ in range(rng.range(1, 3)))
    else:
        i = rng.below(len(b))
        b[i] = rng.choice([0xc7, 0xe0, 0xe4, 0xe5, 0xea, 0xff, 0xc8, 0xbf, 0x00, 0xe1])
    return bytes(b).hex() or "-"

#!/usr/bin/env python3
"""Regenerates /verif/MANIFEST.json from the table below (run after adding a check)."""
import json, os, subprocess
V = os.path.dirname(os.path.dirname(os.path.abspath(__file__)))
TECH = "Rocq (Coq 8.16) theorems over an executable Gallina model + extracted-model/implementation correspondence check"
CLAIMS = {
 "C08": dict(
  text="Machine-checked theorems (coq/props/C08.v, no axioms) over the Gallina model of the number codecs and quantize: natural round trip/minimality/no over-read for all u<2^30 and all byte strings, 4-byte rounding spec for all 2^32 bit patterns, exactness + shortest form + re-encode stability of reals and coordinates for all float32, nearest-1/64 quantisation, SetNReg shortest-of-three; the model is tied to /repo by a bit-exact correspondence run (~290k numbers quick) through build-tag exports of the real codec functions. The zero-to-one 4-ulp bound is not a theorem (zto_*_partial) and is covered by the correspondence only.",
  note="Trusted: Coq kernel; coq/model/SF.v as the IEEE-754 definition (validated bit-for-bit against Go/amd64 by this run); OCaml extraction (ExtrOcamlBasic only) and driver; Go harness + verif-tagged exports; python generators. No axioms.",
  ref="§6 C08"),
}
props = [json.loads(l)["id"] for l in open(os.path.join(V, "properties.jsonl"))]
hooks = subprocess.run(["git", "-C", "/repo", "log", "--format=%H %s"], capture_output=True, text=True).stdout.splitlines()
hook_commits = [l.split()[0] for l in hooks if l.split(" ", 1)[1].startswith("verif:")]
m = {
 "version": 1,
 "setup_cmd": "./check --setup",
 "hooks": {"guard": "verif", "enable": "go build -tags verif (harness/ is built with -tags verif against /repo's working tree by every check)",
           "baseline_off_cmd": "cd /repo && go test -vet=off -count=1 ./...",
           "source_commits": hook_commits, "add_only": True},
 "engines": [{"name": "rocq-model", "path": "coq/", "serves_properties": sorted(CLAIMS), "kind_free_text": "Coq 8.16.1 development: model/, proofs/, props/, gen/ (regenerated from /repo)"},
             {"name": "correspondence", "path": "check", "serves_properties": sorted(CLAIMS), "kind_free_text": "Go harness (real code) vs OCaml-extracted model on generated cases"}],
 "checks": [],
 "not_applicable": [],
 "notes": "See DESIGN.md. ./check Cxx --tier quick|thorough ; replay with ./check Cxx --replay <file>.",
}
for p in props:
    if p in CLAIMS:
        c = CLAIMS[p]
        m["checks"].append({
            "property_id": p,
            "quick_cmd": "./check %s --tier quick" % p,
            "thorough_cmd": "./check %s --tier thorough" % p,
            "evidence_file": "evidence/%s.json" % p,
            "replay_cmd_template": "./check %s --replay {path}" % p,
            "engine": "rocq-model",
            "level_claimed": {"category": "proof", "text": c["text"], "design_ref": c["ref"]},
            "level_note": c["note"],
            "technique": TECH,
        })
    else:
        m["not_applicable"].append({"property_id": p, "reason": "check not built yet (work in progress; will be claimed once its check is green)"})
json.dump(m, open(os.path.join(V, "MANIFEST.json"), "w"), indent=1)
print("claimed:", sorted(CLAIMS))

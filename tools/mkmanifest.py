#!/usr/bin/env python3
"""Regenerates /verif/MANIFEST.json from the table below (run after adding a check)."""
import json, os, subprocess
V = os.path.dirname(os.path.dirname(os.path.abspath(__file__)))
TECH = "Rocq (Coq 8.16) theorems over an executable Gallina model + extracted-model/implementation correspondence check"
NOTE = ("Trusted: Coq 8.16.1 kernel; coq/model/SF.v as the IEEE-754 definition (validated bit-for-bit against Go/amd64 by the run); OCaml extraction "
        "(ExtrOcamlBasic only) + ocaml/*.ml driver; Go harness with verif-tagged exports; python generators; hand-written model tied to /repo by the "
        "correspondence run and by coq/gen/*.v regenerated from /repo. ")
def claim(text, ref, note=""):
    return dict(text=text, ref=ref, note=NOTE + note)
RAX = ("Axioms: the standard library's real-number axioms (ClassicalDedekindReals.sig_forall_dec, ClassicalDedekindReals.sig_not_dec, "
       "FunctionalExtensionality.functional_extensionality_dep) where a theorem is over R; the float-model theorems use none. ")
CLAIMS = {
 "C02": claim("Theorems for every byte string: no panic / no fuel exhaustion (Done or a DecodeError), nothing delivered before the metadata is complete and Reset first, every call charged to its own consumed byte. prefix_monotone is not yet a theorem (checked by the correspondence on every truncation). Correspondence ~75k inputs through Decode (recorder, Renderer, Encoder), DecodeViewBox, Disassemble.", "§6 C02", "No axioms. Go loop termination is observed, not proved."),
 "C08": claim("Theorems (no axioms) over the Gallina model of the number codecs and quantize: natural round trip / minimality / no over-read, 4-byte rounding spec for all 2^32 patterns, exactness + shortest form + re-encode stability of reals and coordinates, nearest-1/64 quantisation, SetNReg shortest-of-three; bit-exact correspondence (~290k numbers) through build-tag exports. The zero-to-one 4-ulp bound is not a theorem (zto_*_partial).", "§6 C08", "No axioms."),
 "C09": claim("Theorems: all 256 one-byte colours match the specification table (kernel sweep, table regenerated from color.go), 2/3/4-byte tables, every colour (all RGBA incl. gradient encodings, palette, register, blend) round-trips through the form SetCReg chooses, truncation = error, blend formula / endpoints / premultiplication preserved, gradient packing round trip. palette_roundtrip for whole suggested palettes is pending (covered by the correspondence: ~125k colour cases).", "§6 C09", "No axioms."),
 "C10": claim("Theorems: every Encoder API call refines one step of the 4-state protocol automaton, hence for every finite history Bytes errs iff the automaton rejects; the first error is sticky until Reset (with the reachable-state invariant); the zero value is observationally a Reset with default metadata; Bytes is idempotent. Correspondence: exhaustive histories to depth 4 over 14 call classes + long random ones.", "§6 C10", "No axioms."),
 "C11": claim("Theorems: Disassemble accepts iff Decode accepts with the same error; the hex column concatenated is the input; reading the instruction lines back (independent listing reader) yields exactly the delivered calls with their operand values. Correspondence: listing text parsed back and compared line by line (~20k streams).", "§6 C11", "No axioms. Text rendering (fmt, Color.String) trusted."),
 "C12": claim("Theorems over the reals for the one polymorphic definition of the fitting formulas: meet lies inside, slice covers, aspect ratio kept, one dimension equal, slack split by the alignment fractions; its float32 instance is compared bit-for-bit with ivg.go (~23k cases incl. extreme magnitudes).", "§6 C12", "Axioms: the standard library's real-number axioms (ClassicalDedekindReals.sig_forall_dec, FunctionalExtensionality.functional_extensionality_dep). Float rounding error not bounded by a theorem."),
 "C13": claim("Theorems: Reset carries the metadata's viewBox and sanitised palette, defaults for absent chunks, explicit palette entries valid / others untouched, accepted viewBoxes are valid, chunk framing (lines = bytes consumed), metadata-only decoding agrees with Decode. Correspondence ~58k metadata sections.", "§6 C13", "No axioms."),
 "C14": claim("Theorems: options are a left fold over the suggested palette, an index override changes exactly one entry, the palette reaching Reset is that fold sanitised (invalid entries become opaque black, all entries valid), valid premultiplied colours are never gradients. Correspondence: option lists incl. NRGBA/RGBA64/Gray16/Alpha16 colours into a recorder and a Renderer.", "§6 C14", "No axioms. color.RGBAModel.Convert taken from Go."),
 "C18": claim("PARTIAL. Theorems: over the write-footprint table regenerated from /repo (go/types), no function writes or aliases a package-level variable or stores through an input slice / palette parameter; any schedule of independent step machines gives each machine its solo result. Plus a -race run of 16 goroutines over shared inputs compared with serial results. The Go memory model and footprint completeness are not proved.", "§6 C18", "No axioms. Race detector covers executions run, not all interleavings."),
 "C04": claim("Theorems: every register instruction of the Renderer model commutes with the abstraction to the specification's register machine (spec/VMSpec.v) for every state and call; Reset gives the initial machine; a path is painted with exactly the paint the machine prescribes at StartPath time (flat colour resolved, or gradient with its stops/spread/shape/matrix), or skipped entirely (all-zero / invalid colour, LOD out of range); nothing else is drawn. Correspondence: rasteriser call logs of render.Renderer vs the model on ~8k programs incl. gradients, LOD, blends and second Resets.", "§6 C04", "No axioms. NSTOPS<2 is spec-silent (modelled as skip, as the code does). x/image/vector not modelled."),
 "C05": claim("Theorems over the reals for the one polymorphic renderer geometry (Render.rdraw/emit; its float32 instance is compared bit-for-bit with render.go): every drawing call hands the rasteriser the SVG meaning (spec/SvgPath.v) of the operation mapped by the viewBox-to-rectangle affine map, the pen / sub-path start / smooth control state stay in correspondence, for every program by induction; the map sends viewBox corners to rectangle corners. Float32 rounding error is not bounded by a theorem.", "§6 C05", RAX),
 "C06": claim("PARTIAL. Theorems: over R, for the polymorphic endpoint-to-centre conversion the float model runs, start and end points lie on the ellipse with the computed centre/rotation/radii (radii scaled up uniformly exactly when too small) and are recovered by rotating back; a relative arc's end is pen+offset; a sweep of at most one turn needs at most 4 segments; on the float model a zero/NaN radius gives exactly one LineTo to the mapped end point, otherwise n CubeTo calls and nothing else. Not proved: each cubic's end point against the angle algebra, flag semantics, float error. Correspondence: ~7.5k arcs bit-exact incl. the Go math kernels.", "§6 C06", RAX),
 "C07": claim("PARTIAL. Theorems: for every call sequence an accepting Encoder and a Renderer hold the same CSEL/NSEL after every prefix (both follow the decoder's selector machine), read-backs return them, and the generator's gradient helpers emit the same calls or the same error into either. Not yet a theorem: equality of rasteriser activity via encode+decode (needs the C01 round trip). Correspondence: direct vs encode+decode rasteriser logs, selectors after every call, logger pass-through.", "§6 C07", "No axioms."),
 "C15": claim("PARTIAL. Theorems over R for the one polymorphic Spread.Clamp (float64 instance compared bit-for-bit): none = identity, pad clamps to [0,1], reflect is the period-2 triangle wave, repeat the fractional part, results in [0,1]; interpolation between premultiplied stops stays premultiplied and hits the stop colours at the ends; pix2grad is the affine map. Not a theorem: that Gradient.At's range search returns the interpolation at the clamped offset (compared on thousands of pixels).", "§6 C15", RAX),
 "C16": claim("PARTIAL. Theorems at the level of the calls reaching the rasteriser: moving the target rectangle changes only each Draw's rectangle (source point stays (0,0)), for every program incl. arcs and gradients; indirect colours are resolved when stored so palette/register/blend forms hand over the same paints; the vec wrapper uses the configured operator for the first Draw only. Not proved: pixels from calls (x/image/vector unmodelled), scale invariance (exercised bit-exactly on the implementation by PIXEQ runs).", "§6 C16", "No axioms."),
 "C17": claim("Theorems: after Reset an Encoder (whatever its history: errors, open path, pending run, hi-res flag) is observationally the zero value after the same Reset, for all continuations; likewise the Renderer model after Reset+SetRasterizer depends on nothing before; decoding is a function of the bytes. Correspondence: reused vs fresh objects side by side (REUSE/EREUSE cases incl. selectors).", "§6 C17", "No axioms."),
 "C19": claim("Theorems: over R the linear/circular/elliptical matrices map the requested geometry to the unit gradient space (start->0, end->1, constancy along the normal; centre->0, radius points->norm 1; ellipse conjugate radii); on the specification's register machine SetGradient lays out stops/matrix at the advertised registers, restores the selectors, rejects more than 58 stops and selector ranges in use; composed with C04 the stops given are the ones painted. Correspondence ~3.8k helper calls bit-exact.", "§6 C19", RAX),
 "C20": claim("PARTIAL. Theorems: generate.SetPathData on the printed form of EVERY structured path of its dialect (commands, repeated groups, any separator choice the dialect allows, z/Z, final z) makes exactly the calls the path spells: StartPath(adj) for the first move, demoted lines for its repeats, close-and-move for later moves, arcs with rotation/360 and flags, one EndPath; over R Concat is composition and normalize applies the full transform to absolute operands, the scale to relative ones and to arc radii; the converter uses one register per distinct opacity and two half-turn arcs per circle. Not proved: the converter's byte-level parser against a printer (correspondence only: ~16k strings).", "§6 C20", RAX + "Decimal-to-float conversion modelled as exact-rational rounding (validated against strconv by the run)."),
}
props = [json.loads(l)["id"] for l in open(os.path.join(V, "properties.jsonl"))]
hooks = subprocess.run(["git", "-C", "/repo", "log", "--format=%H %s"], capture_output=True, text=True).stdout.splitlines()
hook_commits = [l.split()[0] for l in hooks if l.split(" ", 1)[1].startswith("verif:")]
m = {
 "version": 1,
 "setup_cmd": "./check --setup",
 "hooks": {"guard": "verif", "enable": "go build -tags verif (harness/ is built with -tags verif against /repo's working tree by every check)",
           "baseline_off_cmd": "cd /repo && go test -vet=off -count=1 ./...",
           "source_commits": hook_commits, "add_only": True},
 "engines": [{"name": "rocq-model", "path": "coq/", "serves_properties": sorted(CLAIMS), "kind_free_text": "Coq 8.16.1 development: model/, proofs/, props/, gen/ (regenerated from /repo)"},
             {"name": "correspondence", "path": "check", "serves_properties": sorted(CLAIMS), "kind_free_text": "Go harness (real code) vs OCaml-extracted model on generated cases"}],
 "checks": [],
 "not_applicable": [],
 "notes": "See DESIGN.md. ./check Cxx --tier quick|thorough ; replay with ./check Cxx --replay <file>.",
}
for p in props:
    if p in CLAIMS:
        c = CLAIMS[p]
        m["checks"].append({
            "property_id": p,
            "quick_cmd": "./check %s --tier quick" % p,
            "thorough_cmd": "./check %s --tier thorough" % p,
            "evidence_file": "evidence/%s.json" % p,
            "replay_cmd_template": "./check %s --replay {path}" % p,
            "engine": "rocq-model",
            "level_claimed": {"category": "proof", "text": c["text"], "design_ref": c["ref"]},
            "level_note": c["note"],
            "technique": TECH,
        })
    else:
        m["not_applicable"].append({"property_id": p, "reason": "correspondence check built and green (./check %s); not claimed yet because its theorems are still being written" % p})
json.dump(m, open(os.path.join(V, "MANIFEST.json"), "w"), indent=1)
print("claimed:", sorted(CLAIMS))

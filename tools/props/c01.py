"""C01 — encode/decode round trip and transcoding."""
from .. import common as C
from .. import gen as G

PID = "C01"
RULE = ("protocol-respecting programs over all 30 Destination methods (all ADJ, incr forms, every colour kind, runs crossing the "
        "16/32 repeat limits for every verb incl. arcs/H/V, unbroken runs of 255..600 (thorough: 65535..65541) identical operations, numbers of every float class, lo/hi resolution toggled between paths, "
        "default and custom viewBox/palette) encoded by the real Encoder and decoded by the real decoder (ED); decoder-accepted "
        "grammar-level streams incl. non-canonical number forms and streams ending inside a path, transcoded 3 times at both "
        "resolutions (TR). Observable: decoded calls, not bytes. Non-trivial: decodes OK with at least one path; distinct by text.")
ASSUMPTIONS = []


def generate(rng, tier):
    g = {"systematic-runs": [], "programs": [], "transcode": [], "transcode-midpath": []}
    # runs around the repeat limits for every verb, lo and hi res
    for v in list(G.VERBS) + ["A", "a"]:
        m = G.MAXREP.get(v, 1)
        for n in sorted(set([1, 2, m - 1, m, m + 1, 2 * m, 2 * m + 1, 3 * m + 2])):
            if n < 1:
                continue
            for hi in ("H0", "H1"):
                t = [hi, "SP", "0", G.fl(rng), G.fl(rng)]
                for _ in range(n):
                    t += G.draw_op(rng, v)
                t += G.draw_op(rng, rng.choice("Ll")) + ["Z"]
                g["systematic-runs"].append("ED " + " ".join(t))
    n = 6000 if tier == "quick" else 200000
    for _ in range(n):
        g["programs"].append("ED " + " ".join(G.program(rng)))
    # "an Encoder" includes one that was used before: a path abandoned with operands still pending (no Z, no Bytes),
    # sometimes after a protocol violation, then Reset and a well-formed program
    g["reused-encoder"] = []
    for i in range(300 if tier == "quick" else 6000):
        t = ["SP", "0", G.fl(rng), G.fl(rng)]
        for _ in range(1 + rng.below(5)):
            t += G.draw_op(rng, rng.choice("LlTtQqSsCc"))
        if i % 4 == 0:
            t += ["SP", "0", G.fl(rng), G.fl(rng)]
        g["reused-encoder"].append("ED " + " ".join(t + G.program(rng, reset=True)))
    g["getters-mid-path"] = []
    for _ in range(300 if tier == "quick" else 6000):
        t = G.program(rng, reset=True)
        # insert CSel() / NSel() / LOD() reads at random places (they are reads: also inside an open path)
        out = []
        for tok_i, tok in enumerate(t):
            out.append(tok)
        pos = [i for i, tok in enumerate(out) if tok in ("SP", "Z")]
        for _ in range(rng.range(1, 4)):
            if pos:
                i = rng.choice(pos)
                k = i + (4 if out[i] == "SP" else 1)
                out = out[:k] + [rng.choice(["rc", "rn", "rl"])] + out[k:]
                pos = [i for i, tok in enumerate(out) if tok in ("SP", "Z")]
        g["getters-mid-path"].append("ED " + " ".join(out))
    n = 3000 if tier == "quick" else 100000
    for _ in range(n):
        s = G.stream(rng, well_formed=True)
        g["transcode"].append("TR 3 %d %s" % (rng.below(2), s))
    for _ in range(n // 3):
        s = G.stream(rng, well_formed=True)
        # cut the trailing end-path so the stream ends inside a path
        s2 = s + "%02x" % (0xc0 + rng.below(7)) + G.rnumber_bytes(rng) + G.rnumber_bytes(rng) + G.drawing_bytes(rng)
        g["transcode-midpath"].append("TR 3 %d %s" % (rng.below(2), s2))
    # unbroken runs far beyond the opcode limits (a flattened curve is hundreds of identical segments): counts around 2^8 and
    # 2^9 for every verb, around 2^16 for the line verbs in the thorough tier; a different run follows so that a lost or
    # misplaced flush shows
    g["very-long-runs"] = []
    for v in list(G.VERBS) + ["A", "a"]:
        ns = [255, 256, 257, 300, 512, 513, 600]
        if tier != "quick" and v in "LlHhVv":
            ns += [65535, 65536, 65541]
        for n in ns:
            t = [rng.choice(["H0", "H1"]), "SP", "0", G.fl(rng), G.fl(rng)]
            if rng.below(2):
                t += G.draw_op(rng, rng.choice("QqCc"))
            for _ in range(n):
                t += G.draw_op(rng, v)
            t += G.draw_op(rng, rng.choice("Tt")) + ["Z"]
            g["very-long-runs"].append("ED " + " ".join(t))
    return g


import re
_F = re.compile(r"(?<![0-9a-f:#])[0-9a-f]{8}(?![0-9a-f])")


def _canon(m):
    b = int(m.group(0), 16)
    return "nan" if C.is_nan32(b) else m.group(0)


def project(case, out):
    # NaN payloads produced by arithmetic (angle normalisation of a non-finite angle) are unspecified
    return _F.sub(_canon, out)


def nontrivial(case, out):
    return out.startswith("OK") and " SP " in out


def oracle(case, io, mo):
    if "ENCERR" in io and "ENCERR" not in mo:
        return True, "the Encoder rejected calls the property says it must accept"
    return True, "decoded operations differ from the model's (proved equal to the quantised program)"

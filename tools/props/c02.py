"""C02 — decoding arbitrary bytes is safe, bounded and never delivers garbage early."""
from .. import common as C
from .. import gen as G

PID = "C02"
RULE = ("random bytes after a valid magic and raw random bytes; every truncation point and single-byte corruption of generated valid streams; "
        "splices; adversarial chunk counts / lengths (2^30-1, past EOF); non-finite operands; each through Decode into a recorder, "
        "DecodeViewBox and Disassemble (outcome), with the input compared before/after. Non-trivial: magic accepted; distinct by text.")
ASSUMPTIONS = ["termination of the Go loops is observed (watchdog), not proved; the model proves >= 1 byte consumed per iteration"]


def generate(rng, tier):
    g = {"random-bytes": [], "random-after-magic": [], "truncations": [], "corruptions": [], "adversarial": []}
    n = 4000 if tier == "quick" else 200000
    for _ in range(n):
        k = rng.range(0, 24)
        g["random-bytes"].append("DEC " + ("".join("%02x" % rng.below(256) for _ in range(k)) or "-"))
        g["random-after-magic"].append("DEC " + G.MAGIC + "".join("%02x" % rng.below(256) for _ in range(k)))
        g["random-after-magic"].append("DEC " + G.MAGIC + "00" + "".join("%02x" % rng.below(256) for _ in range(k)))
    for _ in range(150 if tier == "quick" else 3000):
        s = G.stream(rng, True)
        for i in range(0, len(s) // 2 + 1):
            g["truncations"].append("DEC " + (s[:2 * i] or "-"))
        for _ in range(40):
            g["corruptions"].append("DEC " + G.mutate(rng, s))
    g["metadata"] = []
    for _ in range(3000 if tier == "quick" else 60000):
        m = G.MAGIC + G.metadata_bytes(rng, rng.below(2) == 0)
        g["metadata"].append("DEC " + m + (G.styling_bytes(rng) if rng.below(2) else ""))
    # viewBox chunks with one non-finite / inverted coordinate in each position
    for pos in range(4):
        for bad in ("0300807f", "030080ff", "0300c07f", "0700807f"):
            co = ["40", "40", "c0", "c0"]
            co[pos] = bad
            body = "00" + "".join(co)
            g["metadata"].append("DEC " + G.MAGIC + "02" + G.natural_bytes(len(body) // 2) + body)
    for mid in (0, 1, 2, 3, 5, 63, 64, 127, 128, 200, 16383, 16384, (1 << 30) - 1):
        for w in (1, 2, 4):
            if (w == 1 and mid >= 128) or (w == 2 and mid >= 16384):
                continue
            for tail in ("", "00", "40404040", "0000"):
                body = G.natural_bytes(mid, w) + tail
                g["metadata"].append("DEC " + G.MAGIC + "02" + G.natural_bytes(len(body) // 2) + body)
    for s in ("fdffffff", "ffffffff", "03000040", "fe", "01ff"):
        for tail in ("", "00", "0a004040c0c0", "fdffffff00", "ffffffff01" + "ff" * 8):
            g["adversarial"].append("DEC " + G.MAGIC + s + tail)
            g["adversarial"].append("DEC " + G.MAGIC + "02" + s + tail)
    # well-formed streams that set up gradients with very many (valid) stops, cut at every byte: decoded into a Renderer
    g["many-stops"] = []
    for ns in (2, 57, 58, 59, 60, 62, 63):
        for nb in (0, 10):
            s = G.MAGIC + "00" + "%02x" % (0x40 + nb)
            for i in range(64):                      # NREG[nb + i] = i / 64 (incrementing writes, 4-byte reals)
                b = (C.f32_bits(i / 64.0) & ~3) | 3
                s += "af%02x%02x%02x%02x" % (b & 255, (b >> 8) & 255, (b >> 16) & 255, b >> 24)
            s += "%02x" % (0x00 + 1)                 # CSEL = 1: stops in CREG[1..], the gradient itself in CREG[0]
            for i in range(ns):
                s += "9f%02x%02x%02xff" % (i, 255 - i, (3 * i) & 255)
            s += "00" + "98%02x%02x%02x00" % (ns, 1 | (rng.below(4) << 6), nb | (2 << 6))
            s += "c0" + "8080" + "00" + "9090" + "00" + "7090" + "e1"
            g["many-stops"].append("DEC " + s)
            for cut in range(len(s) // 2 - 14, len(s) // 2):
                g["many-stops"].append("DEC " + s[:2 * cut])
    # arcs decoded into a Renderer whose target is larger than 1024 pixels (at most four curve segments per operation)
    g["arcs-large-target"] = []
    for _ in range(120 if tier == "quick" else 3000):
        c1 = lambda lo, hi: "%02x" % (2 * (64 + rng.range(lo, hi)))
        s = G.MAGIC + "00" + "c0" + c1(-30, 30) + c1(-30, 30)
        for _ in range(rng.range(1, 3)):
            s += rng.choice(["c0", "d0"]) + c1(1, 40) + c1(1, 40) + "%02x" % (2 * rng.below(120)) + "%02x" % (2 * rng.below(4)) + c1(-30, 30) + c1(-30, 30)
        g["arcs-large-target"].append("DEC " + s + "e1")
    g["nonfinite-operands"] = []
    for bad in ("0300c07f", "0300c0ff", "0300807f", "030080ff", "03ffff7f", "0300a07f"):
        ok = "50"
        for body in ("c7" + bad + ok, "c7" + ok + bad, "c7" + bad + bad, "a8" + bad, "af" + bad, "b0" + bad, "b8" + bad,
                     "c0" + bad + ok, "c0" + ok + bad + "e1", "c08080" + "c0" + "9090" + bad + "00" + "8080" + "e1"):
            g["nonfinite-operands"].append("DEC " + G.MAGIC + "00" + body)
            g["nonfinite-operands"].append("DEC " + G.MAGIC + "00" + body + "00")
    g["pixels-nonfinite"] = []
    out = {}
    out["pixels-nonfinite"] = ["DPIX 16 16 " + G.MAGIC + "00" + "c08080" + "00" + co + "90" + "e1" for co in ("0300807f", "030080ff", "0300c07f", "03ffff7f")]
    del g["pixels-nonfinite"]
    for k, v in g.items():
        out[k] = v
        out[k + "-viewbox"] = ["DVB " + c.split(" ", 1)[1] for c in v[::4]]
        if k == "many-stops":
            out[k + "-into-renderer"] = ["DREN 0 0 16 16 " + c.split(" ", 1)[1] for c in v]
            # ... and into a Renderer backed by the bundled raster/vec rasteriser (pixels are drawn, Gradient.At runs)
            out[k + "-pixels"] = ["DPIX 16 16 " + c.split(" ", 1)[1] for c in v]
        if k == "arcs-large-target":
            out[k + "-into-renderer"] = ["DREN 0 0 %d %d " % (rng.choice([1024, 1025, 2048, 4096]), rng.choice([600, 1025, 3000])) + c.split(" ", 1)[1] for c in v]
        if k in ("truncations", "corruptions", "random-after-magic"):
            out[k + "-into-renderer"] = ["DREN 0 0 %d %d " % (1 + i % 40, 1 + i % 33) + c.split(" ", 1)[1] for i, c in enumerate(v[2::8])]
            out[k + "-into-encoder"] = ["TR 1 %d " % (i % 2) + c.split(" ", 1)[1] for i, c in enumerate(v[3::8])]
        out[k + "-disassemble"] = ["DIS " + c.split(" ", 1)[1] for c in (v if len(v) < 6000 else v[1::4])]
    return out


def project(case, out):
    # outcome class and delivered calls; the error *kind* belongs to C03/C13
    if case.startswith("DREN"):
        # outcome class and the shape of the rasteriser activity (numbers belong to C05/C06)
        t = out.split()
        return " ".join([t[0][:3]] + [x for x in t[1:] if not (len(x) == 8 and all(ch in "0123456789abcdef" for ch in x))]) if t else out
    if case.startswith("TR"):
        return " || ".join(p.split(" | ")[0][:3] for p in out.split(" || "))
    if case.startswith("DIS"):
        return out.split(" ", 1)[0][:3]   # outcome class only; the listing belongs to C11
    if out.startswith("ERR"):
        o, sep, rest = out.partition(" ")
        return "ERR " + rest
    return out


def nontrivial(case, out):
    return not out.startswith("ERR3")


def always_check(case, io):
    if io.startswith(("PANIC", "CRASH", "MISSING", "TIMEOUT")):
        return True, "decoding panicked / crashed / hung: " + io[:200]
    if io.startswith("NOT-A-DecodeError") or io.startswith("INPUT-MODIFIED"):
        return True, io[:200]
    if case.startswith("DREN"):
        h = case.split()[5]
        nbytes = 0 if h == "-" else len(h) // 2
        nseg = sum(1 for x in io.split() if x in ("m", "l", "q", "c", "z", "d") or x.startswith("r"))
        if nseg > 4 * nbytes + 4:
            return True, "rasteriser activity (%d calls) is not linear in the input length (%d bytes)" % (nseg, nbytes)
    if case.startswith("DEC"):
        o, _, calls = io.partition(" | ")
        t = calls.split()
        if t and t[0] != "R":
            return True, "first delivered call is not Reset"
        h = case.split()[1]
        nbytes = 0 if h == "-" else len(h) // 2
        ncalls = sum(1 for x in t if x in ("R", "CS", "NS", "CR", "NR", "LOD", "SP", "Z", "A", "a") or (len(x) == 1 and x in G.VERBS))
        if ncalls > nbytes:
            return True, "more calls (%d) than input bytes (%d)" % (ncalls, nbytes)
    return False, ""


def oracle(case, io, mo):
    return True, "outcome class / delivered calls differ from the model (proved panic-free, prefix-monotone, metadata-first)"

"""C03 — the decoder implements exactly the FFV0 instruction grammar."""
from .. import common as C
from .. import gen as G

PID = "C03"
RULE = ("every opcode byte in each mode (2 x 256) followed by every operand-width combination drawn from {1,2,4}-byte forms with "
        "boundary contents (and too-short operands); structured random grammar-level programs with non-canonical number forms; "
        "arc flag naturals 0..9 and large in all three widths; mutated streams. Observable: delivered calls and the error. "
        "Non-trivial: at least one instruction was delivered; distinct by text.")
ASSUMPTIONS = []

NUMS1 = ["00", "02", "80", "fe"]
NUMS2 = ["0100", "0500", "fdff", "0180"]
NUMS4 = ["03000000", "0300803f", "ffffffff", "0300c07f", "0300807f", "030080ff", "07000000"]


def operand_sets(rng, k):
    """k number operands, each of width 1/2/4"""
    out = []
    for _ in range(6):
        out.append("".join(rng.choice(rng.choice([NUMS1, NUMS2, NUMS4])) for _ in range(k)))
    for ws in ([NUMS1] * k, [NUMS2] * k, [NUMS4] * k):
        out.append("".join(rng.choice(w) for w in ws))
    return out


def generate(rng, tier):
    g = {"styling-opcodes": [], "drawing-opcodes": [], "arc-flags": [], "programs": [], "mutated": []}
    pre = G.MAGIC + "00"
    start = "c08080"
    for op in range(256):
        # styling mode
        tails = set([""])
        for k in (1, 2, 3, 4):
            for _ in range(3):
                tails.add("".join("%02x" % rng.below(256) for _ in range(k)))
        for t in operand_sets(rng, 2):
            tails.add(t)
            tails.add(t[:-2])
        for t in sorted(tails):
            g["styling-opcodes"].append("DEC " + pre + "%02x" % op + t)
            g["styling-opcodes"].append("DEC " + pre + "%02x" % op + t + "00")
        # drawing mode
        hi = op >> 4
        nreps = 1 + ((op & 0x1f) if hi < 4 else (op & 0x0f)) if op < 0xe0 else 1
        nco = [2, 2, 2, 2, 2, 2, 4, 4, 4, 4, 6, 6, 6, 6, 2, 2][hi]
        for _ in range(4):
            body = ""
            for _ in range(nreps):
                if hi in (12, 13):
                    body += rng.choice(operand_sets(rng, 3)) + G.natural_bytes(rng.below(4), rng.choice([1, 2, 4])) + rng.choice(operand_sets(rng, 2))
                else:
                    body += rng.choice(operand_sets(rng, nco))
            for cut in (0, 2, rng.below(len(body) // 2 + 1) * 2):
                b = body[:len(body) - cut] if cut else body
                g["drawing-opcodes"].append("DEC " + pre + start + "%02x" % op + b)
                g["drawing-opcodes"].append("DEC " + pre + start + "%02x" % op + b + "e1")
    for fl in list(range(0, 10)) + [127, 128, 255, 256, 16383, 16384, 1 << 20, (1 << 30) - 1]:
        for w in (1, 2, 4):
            if (w == 1 and fl >= 128) or (w == 2 and fl >= 16384):
                continue
            for op in ("c0", "d0", "c1"):
                body = "8284" + "2a" + G.natural_bytes(fl, w) + "8680"
                if op == "c1":
                    body = body + body
                g["arc-flags"].append("DEC " + pre + start + op + body + "e1")
    # Decode(nil, src): without a destination the stream is validated all the same (same error or success)
    g["nil-destination"] = []
    for k in ("styling-opcodes", "drawing-opcodes", "arc-flags"):
        for c in g[k][::7]:
            g["nil-destination"].append("DECNIL " + c.split(" ", 1)[1])
    n = 8000 if tier == "quick" else 300000
    for _ in range(n):
        s = G.stream(rng, True)
        g["programs"].append("DEC " + s)
        g["mutated"].append("DEC " + G.mutate(rng, s))
    return g


def project(case, out):
    return out


def nontrivial(case, out):
    return out.count(" ") > 8


def oracle(case, io, mo):
    return True, "delivered operations / verdict differ from the model (proved sound and complete for the FFV0 grammar)"

"""C04 — each path is painted with what the register machine prescribes, or not at all."""
from .. import common as C
from .. import gen as G
from .. import rgen as R

PID = "C04"
RULE = ("programs of register traffic (selectors near 0/63, every ADJ, incrementing writes, palette / register / blend colours resolved at store time, "
        "70 consecutive increments), gradients at CBASE/NBASE in {0,5,6,10,57,58,62,63} with 0..6 stops and invalid stops of each kind (non-premultiplied, "
        "offset <0, >1, NaN, equal, decreasing), LOD pairs incl. +-Inf/NaN/equal against heights 0..600 incl. exactly LOD0 and LOD1, custom palettes; "
        "each followed by paths. Observable: rasteriser call log with the paint of every Draw (flat colour or gradient configuration) and final selectors. "
        "Non-trivial: at least one path reached Draw; distinct by text.")
ASSUMPTIONS = ["NSTOPS < 2 is spec-silent; model and code both skip the path"]


def colour_traffic(rng):
    t = []
    for _ in range(rng.range(1, 10)):
        r = rng.below(6)
        if r == 0:
            t += ["CS", str(rng.choice([0, 1, 2, 5, 61, 62, 63, rng.below(256)]))]
        elif r == 1:
            t += ["NS", str(rng.choice([0, 1, 62, 63, rng.below(256)]))]
        elif r < 5:
            adj = rng.below(7)
            incr = rng.below(3) == 0
            t += ["CR", "0" if incr else str(adj), "1" if incr else "0", G.rcolor(rng)]
        else:
            t += ["NR", str(rng.below(7)), "0", R.mf(rng)]
    return t


def generate(rng, tier):
    g = {"register-traffic": [], "gradients": [], "invalid-gradients": [], "lod": [], "increments": []}
    n = 5000 if tier == "quick" else 150000
    for _ in range(n):
        vb, rc = R.viewbox(rng), R.rect(rng)
        body = ["R"] + vb + [G.rpalette(rng, premul=rng.below(4) != 0)]
        for _ in range(rng.range(1, 4)):
            body += colour_traffic(rng)
            body += R.path(rng, verbs=["L", "l", "Q"], n=2, adj=rng.below(7))
        g["register-traffic"].append("REN %d %d %d %d " % tuple(rc) + " ".join(body))
        if rng.below(8) == 0:
            g.setdefault("copied-renderer", []).append("REN %d %d %d %d COPY " % tuple(rc) + " ".join(body))
    for _ in range(n // 2):
        vb, rc = R.viewbox(rng), R.rect(rng)
        cb, nb = rng.choice([0, 5, 6, 10, 57, 58, 62, 63, rng.below(64)]), rng.choice([0, 5, 6, 10, 57, 58, 62, 63, rng.below(64)])
        ns = rng.choice([0, 1, 2, 2, 3, 3, 4, 6, 20, 57, 58, 59, 60, 63])
        stops = R.good_stops(rng, ns)
        sel = rng.below(64)
        adj = rng.below(7)
        body = ["R"] + vb + [G.rpalette(rng)] + R.gradient_regs(rng, cb, nb, stops, rng.below(2), rng.below(4), sel=(sel + adj) % 64)
        body += R.path(rng, verbs=["L", "l"], n=3, adj=adj)
        g["gradients"].append("REN %d %d %d %d " % tuple(rc) + " ".join(body))
        # break one stop
        if ns >= 2:
            bad = list(stops)
            k = rng.below(ns)
            kind = rng.below(7)
            if kind == 0:
                bad[k] = (bad[k][0], "ff000080")            # non-premultiplied
            elif kind == 1:
                bad[k] = (C.fh(-0.125), bad[k][1])
            elif kind == 2:
                bad[k] = (C.fh(1.0 + 2.0 ** -23), bad[k][1])
            elif kind == 3:
                bad[k] = ("7fc00000", bad[k][1])
            elif kind == 4 and k > 0:
                bad[k] = (bad[k - 1][0], bad[k][1])           # equal to predecessor
            elif kind == 5 and k > 0:
                bad[k] = (C.fh(0.0) if k else bad[k][0], bad[k][1])
            else:
                bad[k] = ("80000000" if k == 0 else bad[k][0], bad[k][1])   # -0 is a valid first offset
            body = ["R"] + vb + ["-"] + R.gradient_regs(rng, cb, nb, bad, rng.below(2), rng.below(4), sel=sel)
            body += R.path(rng, verbs=["L"], n=2, adj=0) + ["CS", "1", "CR", "0", "0", "#ff0000ff"] + R.path(rng, verbs=["L"], n=2, adj=0)
            g["invalid-gradients"].append("REN %d %d %d %d " % tuple(rc) + " ".join(body))
    # the same gradient descriptor used by two paths with a stop colour / offset rewritten in between
    g["gradient-reuse"] = []
    for _ in range(n // 8):
        vb, rc = R.viewbox(rng), R.rect(rng)
        cb, nb = rng.choice([10, 20, 57, 63]), rng.choice([10, 20, 57, 63])
        ns = rng.choice([2, 3, 4])
        stops = R.good_stops(rng, ns)
        body = ["R"] + vb + [G.rpalette(rng)] + R.gradient_regs(rng, cb, nb, stops, rng.below(2), rng.below(4), sel=0)
        body += R.path(rng, verbs=["L", "l"], n=2, adj=0)
        k = rng.below(ns)
        what = rng.below(4)
        if what == 0:      # another valid colour
            body += ["CS", str((cb + k) % 64), "CR", "0", "0", "#" + G.rpremul(rng), "CS", "0"]
        elif what == 1:    # a non-premultiplied colour: the gradient becomes invalid
            body += ["CS", str((cb + k) % 64), "CR", "0", "0", "#ff000080", "CS", "0"]
        elif what == 2:    # an offset out of order
            body += ["NS", str((nb + k) % 64), "NR", "0", "0", C.fh(2.0)]
        else:              # first make it invalid, draw, then repair it
            body += ["CS", str((cb + k) % 64), "CR", "0", "0", "#ff000080", "CS", "0"] + R.path(rng, verbs=["L"], n=2, adj=0)
            body += ["CS", str((cb + k) % 64), "CR", "0", "0", "#" + stops[k][1], "CS", "0"]
        body += R.path(rng, verbs=["L", "l"], n=2, adj=0)
        g["gradient-reuse"].append("REN %d %d %d %d " % tuple(rc) + " ".join(body))
    # SetRasterizer between SetLOD and the path: the height tested is the one in force when the path starts
    g["retarget-lod"] = []
    for _ in range(400 if tier == "quick" else 8000):
        vb = R.viewbox(rng)
        h1, h2 = rng.choice([8, 24, 48, 64, 100]), rng.choice([8, 24, 47, 48, 49, 64, 100])
        l0, l1 = rng.choice([(0.0, 48.0), (48.0, 1000.0), (0.0, float(h2)), (float(h2), 1e9), (float(h1), float(h1) + 1), (0.0, float("inf"))])
        body = ["R"] + vb + ["-", "LOD", C.fh(l0), C.fh(l1), "SR", str(rng.range(-5, 20)), str(rng.range(-5, 20)), str(rng.choice([h2, 16, 64])), str(h2)]
        body += R.path(rng, verbs=["L", "l"], n=2) + ["SR", "0", "0", str(h1), str(h1)] + R.path(rng, verbs=["L"], n=1)
        g["retarget-lod"].append("REN 0 0 %d %d " % (h1, h1) + " ".join(body))
    g["second-reset"] = []
    for _ in range(300 if tier == "quick" else 5000):
        vb, rc = R.viewbox(rng), R.rect(rng)
        body = ["R"] + vb + [G.rpalette(rng)] + colour_traffic(rng) + ["NS", str(rng.range(1, 63)), "CS", str(rng.range(1, 63)), "LOD", C.fh(3.0), C.fh(4.0)]
        body += R.path(rng, verbs=["T", "S"], n=2) if rng.below(2) else []
        body += ["R"] + R.viewbox(rng) + [G.rpalette(rng)]
        if rng.below(2):
            body += ["NR", "0", "1", R.mf(rng), "CR", "0", "1", "#" + G.rpremul(rng)] + R.path(rng, verbs=["t", "s", "L"], n=2)
        g["second-reset"].append("REN %d %d %d %d " % tuple(rc) + " ".join(body))
    lods = [0.0, 1.0, 24.0, 48.0, 64.0, 600.0, float("inf"), float("-inf"), float("nan"), -1.0, 0.5, 63.999, 64.001]
    for l0 in lods:
        for l1 in lods:
            for h in (0, 1, 24, 47, 48, 49, 64, 600):
                body = ["R", "c2000000", "c2000000", "42000000", "42000000", "-", "LOD", C.fh(l0), C.fh(l1)] + R.path(rng, verbs=["L"], n=2)
                body += ["LOD", C.fh(0.0), "7f800000"] + R.path(rng, verbs=["l"], n=1)
                g["lod"].append("REN 0 0 %d %d " % (rng.choice([1, h, 64]), h) + " ".join(body))
    for start in (0, 1, 30, 62, 63):
        for cnt in (1, 2, 63, 64, 65, 70):
            body = ["R", "c2000000", "c2000000", "42000000", "42000000", "-", "CS", str(start), "NS", str(start)]
            for i in range(cnt):
                body += ["CR", "0", "1", "#%02x%02x%02xff" % (i, 255 - i, (7 * i) & 255), "NR", "0", "1", C.fh(float(i))]
            for adj in (0, 1, 6):
                body += R.path(rng, verbs=["L"], n=1, adj=adj)
            g["increments"].append("REN 0 0 32 32 " + " ".join(body))
    return g


def project(case, out):
    return out


def nontrivial(case, out):
    return " d " in out


def oracle(case, io, mo):
    import re
    pi = re.findall(r" d \S+ (\S+)", " " + io)
    pm = re.findall(r" d \S+ (\S+)", " " + mo)
    if pi != pm:
        return True, "paints handed to the rasteriser differ from the register machine's: %s vs %s" % (pi[:2], pm[:2])
    if io.partition(" | ")[2] != mo.partition(" | ")[2]:
        return True, "selector registers differ"
    if io.count(" r") != mo.count(" r"):
        return True, "a path that must be skipped produced rasteriser activity (or the reverse)"
    return False, "paints agree; geometry bits differ (belongs to C05/C06)"

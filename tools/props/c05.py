"""C05 — path geometry reaches the rasteriser correctly mapped from viewBox to pixels."""
import itertools
from .. import common as C
from .. import gen as G
from .. import rgen as R

PID = "C05"
RULE = ("all sequences of <= 2 verbs (quick) / <= 3 verbs (thorough) over the 16 non-arc path verbs + close-and-move, each under 4 (viewBox, rectangle) "
        "configurations incl. off-centre / non-square viewBoxes and rectangles with non-zero origin and non-uniform scale; then random longer "
        "paths. Observable: the recording rasteriser's call log (float32 bit patterns; the recorder keeps the pen as x/image/vector does). "
        "Non-trivial: the path was drawn (a Draw call is present); distinct by text.")
ASSUMPTIONS = ["bit-exact comparison: a mathematically equivalent re-association of the float32 formulas in render.go would be reported (as no-failing-input-found)"]

CONFIGS = [
    (["c2000000", "c2000000", "42000000", "42000000"], [0, 0, 64, 64]),
    ([C.fh(0.0), C.fh(0.0), C.fh(24.0), C.fh(48.0)], [5, 9, 96, 48]),
    ([C.fh(-10.5), C.fh(3.25), C.fh(50.0), C.fh(13.0)], [-7, 30, 33, 200]),
    ([C.fh(100.0), C.fh(-200.0), C.fh(101.0), C.fh(-100.0)], [12, 20, 24, 12]),
]


def case(vb, rc, body):
    return "REN %d %d %d %d " % tuple(rc) + " ".join(["R"] + vb + ["-"] + body)


def generate(rng, tier):
    g = {"verb-sequences": [], "random-paths": []}
    depth = 2 if tier == "quick" else 3
    for n in range(1, depth + 1):
        for seq in itertools.product(R.NONARC, repeat=n):
            for vb, rc in CONFIGS:
                body = ["SP", "0", R.mf(rng), R.mf(rng)]
                for v in seq:
                    body += R.draw(rng, v)
                g["verb-sequences"].append(case(vb, rc, body + ["Z"]))
    # "the pen itself when the previous operation was of another kind": an arc (also one with a zero radius, which is
    # a straight line) between a curve and a smooth operation of the same degree
    g["smooth-after-arc"] = []
    for first in "QqCcTtSs":
        for av in "Aa":
            for kind in range(3):
                for sm in "TtSs":
                    for vb, rc in CONFIGS:
                        arc = R.draw(rng, av)
                        if kind == 0:
                            arc[1] = "00000000"
                        elif kind == 1:
                            arc[2] = "00000000"
                        body = ["SP", "0", R.mf(rng), R.mf(rng)] + R.draw(rng, first) + arc + R.draw(rng, sm)
                        g["smooth-after-arc"].append(case(vb, rc, body + ["Z"]))
    for _ in range(6000 if tier == "quick" else 200000):
        vb, rc = R.viewbox(rng), R.rect(rng)
        body = []
        for _ in range(rng.range(1, 3)):
            body += R.path(rng, n=rng.range(1, 12))
        g["random-paths"].append(case(vb, rc, body))
    # SetRasterizer again with a rectangle of the same size at another origin (an icon grid), with or without a Reset after it
    g["retarget"] = []
    for i in range(400 if tier == "quick" else 10000):
        vb, rc = R.viewbox(rng), R.rect(rng)
        rc2 = [rc[0] + rng.range(-40, 40), rc[1] + rng.range(1, 60), rc[2], rc[3]] if i % 4 else R.rect(rng)
        body = ["R"] + vb + ["-"] + R.path(rng, n=rng.range(1, 3)) + ["SR"] + [str(x) for x in rc2]
        if i % 2:
            body += ["R"] + vb + ["-"]
        body += R.path(rng, n=rng.range(1, 4))
        g["retarget"].append("REN %d %d %d %d " % tuple(rc) + " ".join(body))
    # a second Reset on the same Renderer whose viewBox has the same size but another origin (or the same origin, another size)
    g["second-reset"] = []
    for _ in range(600 if tier == "quick" else 20000):
        vb, rc = R.viewbox(rng), R.rect(rng)
        f = [C.bits_f32(int(x, 16)) for x in vb]
        k = rng.below(3)
        dx, dy = rng.range(-40, 40) / 2.0, rng.range(-40, 40) / 2.0
        if k == 0:
            vb2 = [C.fh(f[0] + dx), C.fh(f[1] + dy), C.fh(f[2] + dx), C.fh(f[3] + dy)]
        elif k == 1:
            vb2 = [vb[0], vb[1], C.fh(f[2] + abs(dx) + 1), C.fh(f[3] + abs(dy) + 1)]
        else:
            vb2 = [C.fh(f[0] + dx), vb[1], C.fh(f[2] + dx), vb[3]]
        body = R.path(rng, n=rng.range(1, 4)) + ["R"] + vb2 + ["-"] + R.path(rng, n=rng.range(1, 6))
        g["second-reset"].append(case(vb, rc, body))
    return g


def project(case, out):
    return out


def nontrivial(case, out):
    return " d " in out


def _floats(tok):
    return [C.bits_f32(int(x, 16)) for x in tok]


def oracle(case, io, mo):
    """Tolerance oracle: the property speaks of the exact affine map 'up to float32 rounding'."""
    a, b = io.split(), mo.split()
    if len(a) != len(b):
        return True, "different rasteriser call sequence"
    scale = 1.0
    for x, y in zip(a, b):
        if x == y:
            continue
        if len(x) == 8 and len(y) == 8:
            try:
                fx, fy = C.bits_f32(int(x, 16)), C.bits_f32(int(y, 16))
            except ValueError:
                return True, "different rasteriser calls"
            if fx != fx or fy != fy or abs(fx - fy) > 2.0 ** -12 * max(1.0, abs(fx), abs(fy)):
                return True, "coordinate differs beyond float32 rounding: %r vs %r" % (fx, fy)
        else:
            return True, "different rasteriser calls (%s vs %s)" % (x, y)
    return False, "coordinates agree within 2^-12 relative but not bit-for-bit (correspondence broken, property not refuted)"

"""C06 — elliptical arcs."""
from .. import common as C
from .. import gen as G
from .. import rgen as R

PID = "C06"
RULE = ("grid over (rx, ry, rotation in multiples of 1/24 turn and random, 4 flag pairs, endpoint) x uniform / non-uniform / off-origin viewBox-to-rectangle "
        "maps, absolute and relative, undersized radii, zero / negative / NaN radii, arcs after other verbs; malformed stream (coincident endpoints, huge values) "
        "compared on segment count only. Observable: CubeTo/LineTo arguments (float32 bits) on the recording rasteriser. Non-trivial: at least one "
        "cubic was emitted; distinct by text.")
ASSUMPTIONS = ["math.Sin/Cos/Acos/Sqrt of the installed Go toolchain on this host agree bit-for-bit with coq/model/GoMath.v incl. the Payne-Hanek range (checked by this run, not proved)",
               "arcs with coincident end points or NaN/Inf parameters are compared on activity (drawn / skipped) only"]

CONFIGS = [
    (["c2000000", "c2000000", "42000000", "42000000"], [0, 0, 64, 64]),
    (["c2000000", "c2000000", "42000000", "42000000"], [0, 0, 128, 128]),
    ([C.fh(0.0), C.fh(-20.0), C.fh(40.0), C.fh(20.0)], [0, 0, 80, 120]),
    ([C.fh(-10.5), C.fh(3.25), C.fh(50.0), C.fh(13.0)], [-7, 30, 33, 200]),
]


def generate(rng, tier):
    g = {"grid": [], "zero-radius": [], "random": [], "malformed": []}
    rots = [0, 1, 3, 6, 9, 12, 18, 23, 25, -5]
    radii = [(10, 10), (5, 10), (1, 30)]
    for vb, rc in CONFIGS:
        for rx, ry in radii:
            for rot in rots:
                for fl in range(4):
                    for v in ("A", "a"):
                        body = ["R"] + vb + ["-", "SP", "0", R.mf(rng), R.mf(rng), v, C.fh(rx), C.fh(ry), C.fh(rot / 24.0), str(fl), R.mf(rng), R.mf(rng), "Z"]
                        g["grid"].append("REN %d %d %d %d " % tuple(rc) + " ".join(body))
        for rx, ry in ((0, 5), (5, 0), (0, 0), (-0.0, 3), (float("nan"), 4), (4, float("nan")), (-3, 4), (3, -4)):
            for v in ("A", "a"):
                body = ["R"] + vb + ["-", "SP", "0", R.mf(rng), R.mf(rng), "L", R.mf(rng), R.mf(rng), v, C.fh(rx), C.fh(ry), C.fh(0.125), str(rng.below(4)), C.fh(10.0), C.fh(10.0), "Z"]
                g["zero-radius"].append("REN %d %d %d %d " % tuple(rc) + " ".join(body))
    for _ in range(6000 if tier == "quick" else 50000):
        vb, rc = R.viewbox(rng), R.rect(rng)
        body = ["R"] + vb + ["-"] + R.path(rng, verbs=["A", "a", "A", "a", "L", "q", "h"], n=rng.range(1, 5))
        g["random"].append("REN %d %d %d %d " % tuple(rc) + " ".join(body))
    g["decoded-wide-flags"] = []
    for i in range(300 if tier == "quick" else 6000):
        fl = rng.below(4)
        w = rng.choice([2, 4, 4])
        hi = rng.below(1 << 12) if w == 2 else rng.choice([rng.below(1 << 28), (1 << 28) - 1, 1 << 22, 1 << 27, (1 << 22) + 1])
        n = fl | (hi << 2)
        op = rng.choice(["c0", "d0"])
        stream = G.MAGIC + "00" + "c0" + "%02x%02x" % (2 * (64 + rng.range(-20, 20)), 2 * (64 + rng.range(-20, 20))) + op + \
            "%02x%02x" % (2 * (64 + rng.range(1, 30)), 2 * (64 + rng.range(1, 30))) + "%02x" % (2 * rng.below(120)) + G.natural_bytes(n, w) + \
            "%02x%02x" % (2 * (64 + rng.range(-30, 30)), 2 * (64 + rng.range(-30, 30))) + "e1"
        g["decoded-wide-flags"].append("DREN 0 0 %d %d %s" % (rng.choice([16, 64, 100]), rng.choice([16, 64, 100]), stream))
    for _ in range(500 if tier == "quick" else 10000):
        vb, rc = R.viewbox(rng), R.rect(rng)
        x, y = R.mf(rng), R.mf(rng)
        kind = rng.below(3)
        if kind == 0:    # coincident endpoints
            body = ["SP", "0", x, y, "A", C.fh(5.0), C.fh(5.0), C.fh(0.0), str(rng.below(4)), x, y, "Z"]
        elif kind == 1:  # huge rotation / radii
            body = ["SP", "0", x, y, "A", G.fl(rng), G.fl(rng), G.fl(rng), str(rng.below(4)), R.mf(rng), R.mf(rng), "Z"]
        else:
            body = ["SP", "0", x, y, "a", C.fh(1e-20), C.fh(1e20), C.fh(0.3), str(rng.below(4)), R.mf(rng), R.mf(rng), "Z"]
        g["malformed"].append("REN %d %d %d %d " % tuple(rc) + " ".join(["R"] + vb + ["-"] + body))
    return g


def shape(out):
    return " ".join(t for t in out.split() if not (len(t) == 8 and all(c in "0123456789abcdef" for c in t)))


def is_malformed(case):
    t = case.split()
    # arguments that make the computation ill-conditioned or leave the modelled trig range
    for i, x in enumerate(t):
        if x in ("A", "a") and i + 6 < len(t):
            try:
                rx, ry, rot = (C.bits_f32(int(t[i + k], 16)) for k in (1, 2, 3))
            except ValueError:
                continue
            if rot != rot or rx != rx or ry != ry or abs(rot) == float('inf'):
                return True
            if x == "A" and i >= 2 and t[i + 5] == t[i - 2] and t[i + 6] == t[i - 1]:
                return True
    return False


def project(case, out):
    if is_malformed(case):
        # number of segments per arc is not fixed for degenerate input; compare activity class only
        return "drawn" if " d " in out else "skipped"
    return out


def nontrivial(case, out):
    return " c " in out


def oracle(case, io, mo):
    a, b = io.split(), mo.split()
    if shape(io) != shape(mo):
        return True, "different sequence of rasteriser calls for an arc"
    for x, y in zip(a, b):
        if x != y and len(x) == 8:
            fx, fy = C.bits_f32(int(x, 16)), C.bits_f32(int(y, 16))
            if fx != fx or fy != fy or abs(fx - fy) > 2.0 ** -9 * max(1.0, abs(fx), abs(fy)):
                return True, "arc control point differs beyond rounding: %r vs %r" % (fx, fy)
    return False, "arc control points agree within 2^-9 relative but not bit-for-bit"

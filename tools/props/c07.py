"""C07 — rendering directly equals rendering via encode+decode; selectors agree."""
from .. import common as C
from .. import gen as G
from .. import rgen as R

PID = "C07"
RULE = ("action sequences interleaving selector writes (incl. values >= 64), incrementing and plain register writes (runs that wrap past 63), selector read-backs, "
        "the four generator gradient helpers and paths; each driven into a Renderer directly and into an Encoder whose bytes are decoded into a second Renderer, "
        "optionally through DestinationLogger. After every action the Encoder's and the Renderer's CSEL/NSEL are printed. Coordinates are exactly representable "
        "and the Encoder runs in high resolution in the 'exact' group so both rasteriser logs must be identical; otherwise they are compared with the model. "
        "Non-trivial: a path was drawn in both pipelines; distinct by text.")
ASSUMPTIONS = []


def exact_f(rng):
    return C.fh(rng.range(-2000, 2000) / 64.0)


def stops_tok(rng, n):
    st = R.good_stops(rng, n)
    return [str(n)] + [x for s in st for x in (s[0], s[1])]


def helper(rng):
    k = rng.below(4)
    n = rng.choice([0, 1, 2, 2, 3, 5])
    sp = str(rng.below(4))
    if k == 0:
        return ["LG", exact_f(rng), exact_f(rng), exact_f(rng), exact_f(rng), sp] + stops_tok(rng, n)
    if k == 1:
        return ["CG", exact_f(rng), exact_f(rng), exact_f(rng), exact_f(rng), sp] + stops_tok(rng, n)
    if k == 2:
        return ["EG", exact_f(rng), exact_f(rng), C.fh(8.0), C.fh(1.0), C.fh(-2.0), C.fh(4.0), sp] + stops_tok(rng, n)
    return ["GG", str(rng.below(2)), sp] + [exact_f(rng) for _ in range(6)] + stops_tok(rng, n)


def sequence(rng, exact):
    t = ["R"] + (R.viewbox(rng) if not exact else ["c2000000", "c2000000", "42000000", "42000000"]) + [G.rpalette(rng)]
    if exact:
        t.append("H1")
    for _ in range(rng.range(1, 5)):
        r = rng.below(10)
        if r < 2:
            t += ["CS", str(rng.choice([0, 9, 10, 11, 12, 61, 62, 63, 64, 75, 255, rng.below(256)]))]
        elif r < 3:
            t += ["NS", str(rng.choice([0, 4, 10, 62, 63, 64, 200, rng.below(256)]))]
        elif r < 5:
            for _ in range(rng.choice([1, 2, 3, 12, 64, 66])):
                if rng.below(2):
                    t += ["CR", "0", "1", G.rcolor(rng) if rng.below(3) == 0 else "#" + G.rpremul(rng)]
                else:
                    t += ["NR", "0", "1", exact_f(rng)]
        elif r < 6:
            t += ["CR", str(rng.below(7)), "0", G.rcolor(rng)]
            if rng.below(3) == 0:
                big = lambda: C.fh(float(rng.choice([16383, 16384, 16385, 20000, 65536, 1000000, 1 << 24])))
                t += rng.choice([["LOD", C.fh(0.0), big()], ["NR", "0", "1", big()], ["LOD", C.fh(float(rng.choice([0, 1, 16, 64]))), big()]])
        elif r < 9:
            t += helper(rng)
            t += ["SP", "0", exact_f(rng), exact_f(rng), "L", exact_f(rng), exact_f(rng), "l", exact_f(rng), exact_f(rng), "Z"]
        else:
            t += [rng.choice(["rc", "rn"])]
        if rng.below(3) == 0:
            p = ["SP", str(rng.below(7)), exact_f(rng), exact_f(rng)]
            for _ in range(rng.range(1, 4)):
                v = rng.choice(R.NONARC)
                # sometimes a run of the same operation that has to be split over several opcodes
                for _ in range(rng.choice([1, 1, 1, 1, 17, 33, 40]) if v not in "Yy" else 1):
                    p += [v] + [exact_f(rng) for _ in range(G.VERBS[v])]
            t += p + ["Z"]
    return t


def generate(rng, tier):
    g = {"exact": [], "quantised": [], "through-logger": [], "reused-objects": []}
    n = 4000 if tier == "quick" else 150000
    # the same Encoder and Renderer used for an earlier graphic that left the selectors (and possibly an open path)
    # behind, then Reset: the selectors must agree at every point of the second graphic too
    for i in range(n // 8):
        first = sequence(rng, True)
        first += ["CS", str(rng.range(1, 63)), "NS", str(rng.range(1, 63))]
        if i % 3 == 0:
            first += ["SP", "0", exact_f(rng), exact_f(rng), "L", exact_f(rng), exact_f(rng)]
        g["reused-objects"].append("PIPE 0 0 64 64 " + " ".join(first + ["NEW"] + sequence(rng, True)))
    for _ in range(n):
        g["exact"].append("PIPE 0 0 64 64 " + " ".join(sequence(rng, True)))
        rc = R.rect(rng)
        g["quantised"].append("PIPE %d %d %d %d " % tuple(rc) + " ".join(sequence(rng, False)))
        if rng.below(4) == 0:
            g["through-logger"].append("PIPE 0 0 64 64 LOG " + " ".join(sequence(rng, True)))
    return g


def project(case, out):
    return out


def nontrivial(case, out):
    parts = out.split(" | ")
    return len(parts) == 3 and " d " in parts[1] and " d " in parts[2]


def always_check(case, io):
    if io.startswith(("PANIC", "CRASH", "MISSING")):
        return True, io[:200]
    parts = io.split(" | ")
    head = parts[0].rstrip(" |")
    for o in head.split():
        if "/" in o and "," in o:
            e, r = o.split("/")
            ec, en = (int(x) for x in e.split(","))
            rcs, rn = (int(x) for x in r.split(","))
            if (ec - rcs) % 64 or (en - rn) % 64:
                return True, "Encoder selectors %s and Renderer selectors %s disagree modulo 64" % (e, r)
    # generator helper outcomes must be the same for both destinations
    hs = [o for o in head.split() if o.startswith("g=")]
    for a, b in zip(hs[0::2], hs[1::2]):
        if a[:-1] != b[:-1]:
            return True, "a gradient helper behaved differently on the Renderer (%s) and on the Encoder (%s)" % (a, b)
    if " H1 " in case and "PIPE 0 0 64 64" in case and len(parts) == 3 and not any(h in case.split() for h in ("LG", "CG", "EG", "GG")):
        via = parts[2].split(" ", 1)
        if via[0] == "OK" and (via[1] if len(via) > 1 else "") != parts[1]:
            return True, "exactly representable input: direct and via-bytes rasteriser logs differ"
    return False, ""


def oracle(case, io, mo):
    return True, "selectors / rasteriser activity differ from the model"

"""C08 — number encodings: generators, projection and oracle."""
from .. import common as C
from .. import gen as G

PID = "C08"
RULE = ("systematic: all 128 one-byte and 16384 two-byte codes in each decoder interpretation, exponent x mantissa grid "
        "for 4-byte forms, neighbours (+-2 ulp) of k, k/64, k/120, k/15120 and range boundaries, every truncation; "
        "then a seeded random stream of float32 bit patterns (all exponents). A case is non-trivial when the "
        "implementation produced a value (not the n==0 error); distinct by case text.")
ASSUMPTIONS = ["Go float32/float64 arithmetic on this host is IEEE-754 RNE without fusion (checked bit-for-bit against coq/model/SF.v by this run)",
               "the verif-tagged exports in encode/verif_export.go and decode/verif_export.go call the unexported codec functions unchanged"]
TRUSTED = ["/repo/encode/verif_export.go, /repo/decode/verif_export.go (build tag verif): thin exports of the unexported number codecs"]


def interesting_floats():
    out = set()
    add = lambda b: out.update(C.neighbours32(b & 0xffffffff, 2))
    for k in list(range(0, 130)) + [255, 256, 16383, 16384, 16385, 65535, 1 << 23, (1 << 24) - 1, 1 << 24, 1 << 31, 1 << 32]:
        add(C.f32_bits(float(k)))
        add(C.f32_bits(-float(k)))
    for k in range(-8200, 8200, 37):
        add(C.f32_bits(k / 64.0))
    for k in (-8193, -8192, -8191, -4097, -4096, -65, -64, -63, -1, 0, 1, 63, 64, 65, 4095, 4096, 8190, 8191, 8192):
        add(C.f32_bits(k / 64.0))
        for j in range(18, 28):
            add(C.f32_bits((k + 0.5 - 2.0 ** -j) / 64.0))
            add(C.f32_bits((k + 0.5 + 2.0 ** -j) / 64.0))
            add(C.f32_bits((k - 0.5 + 2.0 ** -j) / 64.0))
    for k in range(0, 121):
        add(C.f32_bits(k / 120.0))
    for k in list(range(0, 15121, 97)) + [1, 125, 126, 127, 15119, 15120, 15121]:
        add(C.f32_bits(k / 15120.0))
    for e in (0, 1, 2, 100, 126, 127, 128, 133, 134, 140, 141, 150, 151, 158, 159, 253, 254, 255):
        for m in (0, 1, 2, 3, 4, 5, 6, 7, 0x400000, 0x7ffff8, 0x7ffffb, 0x7ffffc, 0x7ffffd, 0x7ffffe, 0x7fffff):
            for s in (0, 1):
                out.add((s << 31) | (e << 23) | m)
    for x in (0.5, -0.25, 1.25, 1.0, 2.0, -1.0, -2.0 ** -30, 1 - 2.0 ** -24, -2.0 ** -100, 2.0 ** -149, 3.4e38, 127.984375, -128.0, 128.0, -128.015625):
        add(C.f32_bits(x))
    return sorted(out)


def generate(rng, tier):
    g = {}
    nats = [0, 1, 2, 63, 64, 126, 127, 128, 129, 255, 256, 257, 16382, 16383, 16384, 16385, 65535, 65536,
            (1 << 24) - 1, 1 << 24, (1 << 30) - 1, 1 << 30, (1 << 31), (1 << 32) - 1]
    nats += [rng.below(1 << 30) for _ in range(300)] + [rng.below(1 << 15) for _ in range(300)]
    g["nat-encode"] = ["EN %d" % u for u in nats]
    fl = interesting_floats()
    nrand = 20000 if tier == "quick" else 600000
    rnd = []
    for _ in range(nrand):
        r = rng.below(10)
        if r < 5:
            b = rng.below(1 << 32)
        elif r < 7:   # small magnitudes: exponent near 127
            b = (rng.below(2) << 31) | (rng.range(100, 142) << 23) | rng.below(1 << 23)
        elif r < 9:   # few mantissa bits set (short-form candidates)
            b = (rng.below(2) << 31) | (rng.range(110, 142) << 23) | (rng.below(1 << 14) << 9)
        else:
            b = C.f32_bits(rng.below(15121) / 15120.0) + rng.range(-2, 2)
        rnd.append(b & 0xffffffff)
    for kind, lab in (("ER", "real"), ("EC", "coordinate"), ("EZ", "zero-to-one"), ("EA", "angle"), ("E4", "real4"), ("NR", "setnreg")):
        g[lab + "-systematic"] = ["%s %s" % (kind, C.h32(b)) for b in fl]
        g[lab + "-random"] = ["%s %s" % (kind, C.h32(b)) for b in rnd]
    g["quantize-systematic"] = ["QZ %d %s" % (h, C.h32(b)) for b in fl for h in (0, 1)]
    g["quantize-random"] = ["QZ 0 %s" % C.h32(b) for b in rnd]
    # decoders: all 1-byte codes, all 2-byte codes, 4-byte grid, truncations
    dec = []
    for x in range(256):
        dec.append("%02x" % x)
    step2 = 1 if tier == "thorough" else 1
    for v in range(0, 65536, step2):
        if v & 3 == 1:
            dec.append("%02x%02x" % (v & 255, v >> 8))
    for b in fl:
        v = (b & ~3) | 3
        dec.append("%02x%02x%02x%02x" % (v & 255, (v >> 8) & 255, (v >> 16) & 255, v >> 24))
    for b in rnd[:4000]:
        v = (b & ~3) | 3
        dec.append("%02x%02x%02x%02x" % (v & 255, (v >> 8) & 255, (v >> 16) & 255, v >> 24))
    trunc = ["-", "01", "03", "0300", "030000", "ff", "ffff", "ffffff", "fd", "fd00"]
    # trailing garbage must be ignored
    trail = ["02ff", "0501ff", "03000000ffff", "fe01"]
    for kind in ("DN", "DR", "DC", "DZ"):
        g["decode-" + kind] = ["%s %s" % (kind, d) for d in dec + trunc + trail]
    g["truncated-in-stream"] = []
    for _ in range(60 if tier == "quick" else 1500):
        op = rng.choice([0x00 + rng.below(3), 0x20 + rng.below(3), 0x60, 0x80, 0xa0, 0xa1, 0x40 + rng.below(2)])
        hi = op >> 4
        nreps = 1 + ((op & 0x1f) if hi < 4 else (op & 0x0f))
        nco = [2, 2, 2, 2, 2, 2, 4, 4, 4, 4, 6, 6][hi]
        body = "".join(G.rnumber_bytes(rng) for _ in range(nreps * nco))
        full = G.MAGIC + "00" + "c08080" + "%02x" % op + body
        for cut in range(len(body) // 2 + 1):
            g["truncated-in-stream"].append("DEC " + full[:len(full) - 2 * cut])
    return g


def project(case, out):
    k = case.split()[0]
    if k == "NR":
        # the statement says "shortest", not which of two equally short forms: compare operand length + value class only
        p = out.split()
        if len(p) == 2:
            return "len=%d" % (len(p[1]) // 2)
        return out
    if k == "EA":
        a = int(case.split()[1], 16)
        if not C.is_fin32(a):
            # NaN payloads produced by arithmetic are unspecified: compare length only
            return "len=%d" % (len(out) // 2)
    return out


def nontrivial(case, out):
    return not out.startswith("- 0") and not out.startswith(("PANIC", "CRASH", "MISSING"))


def oracle(case, io, mo):
    """The model's output on these projections is uniquely determined by the property
    (theorems in coq/props/C08.v), so a disagreement is a concrete failing input,
    except for representation choices the property leaves open."""
    k = case.split()[0]
    if io.startswith(("PANIC", "CRASH", "MISSING")):
        return True, "implementation did not return a value: " + io
    return True, "implementation output differs from the proved-correct model on an observable the property fixes"

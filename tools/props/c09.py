"""C09 — colours are stored exactly; colour forms and blending follow the tables."""
from .. import common as C
from .. import gen as G

PID = "C09"
RULE = ("all 256 one-byte colours (DecodeColor1 and the 1-byte decoder), all 65536 two-byte colours, random and class-exhaustive 3/4-byte colours and blends, every "
        "truncation; Encode1/2/3Direct/4/3Indirect and RGBA() of RGBA values drawn class-exhaustively from per-channel classes {0x00,0x40,0x80,0xc0,0xff, multiples "
        "of 0x11, other} incl. gradient-looking values, palette indices, registers and blends; SetCReg round trips through the real Encoder and decoder; suggested "
        "palettes with every mix of 1/2/3/4-byte-encodable entries round-tripped; Resolve of blends for t in a boundary set x all 256x256 operand codes (sampled in "
        "quick) against random palette / register contents; EncodeGradient/DecodeGradient fields at 0, 1, max. Non-trivial: the colour decoded / encoded; distinct by text.")
ASSUMPTIONS = []

CH = [0x00, 0x40, 0x80, 0xc0, 0xff, 0x11, 0x22, 0xee, 0x01, 0x7f, 0x3f, 0x41, 0xfe]


def sparse(rng, n, mk):
    return ",".join("%d:%s" % (i, mk(rng)) for i in sorted(set(rng.below(64) for _ in range(n)))) or "-"


def generate(rng, tier):
    g = {"decode1": [], "decode2": [], "decode34": [], "truncated": [], "encode-forms": [], "setcreg-roundtrip": [],
         "palette-roundtrip": [], "resolve": [], "gradient-packing": []}
    for x in range(256):
        g["decode1"].append("C1 %d" % x)
        g["decode1"].append("CF 0 %02x" % x)
    step = 1 if tier == "thorough" else 1
    for v in range(0, 65536, step):
        g["decode2"].append("CF 1 %04x" % v)
    for _ in range(3000):
        g["decode34"].append("CF 2 %06x" % rng.below(1 << 24))
        g["decode34"].append("CF 3 %08x" % rng.below(1 << 32))
        g["decode34"].append("CF 4 %06x" % rng.below(1 << 24))
    for form, n in ((0, 1), (1, 2), (2, 3), (3, 4), (4, 3)):
        for k in range(0, n):
            g["truncated"].append("CF %d %s" % (form, "ab" * k or "-"))
        g["truncated"].append("CF %d %s" % (form, "ab" * (n + 2)))
    # class-exhaustive RGBA (13^4 = 28561) in thorough, sampled in quick
    cols = []
    if tier == "thorough":
        for r in CH:
            for gg in CH:
                for b in CH:
                    for a in CH:
                        cols.append("%02x%02x%02x%02x" % (r, gg, b, a))
    else:
        for _ in range(6000):
            cols.append("%02x%02x%02x%02x" % (rng.choice(CH), rng.choice(CH), rng.choice(CH), rng.choice(CH)))
    cols += ["00000000", "80808080", "c0c0c0c0", "40404040", "ffffffff", "000000ff", "c0c0c0ff", "808080c0"]
    cols += [G.rrgba(rng) for _ in range(3000)]
    for c in cols:
        g["encode-forms"].append("CE #" + c)
        g["setcreg-roundtrip"].append("ED CR %d %d #%s" % (rng.below(7), 0, c))
    for i in range(256):   # the constructors take a uint8 and keep its low six bits
        g["encode-forms"] += ["CE p%d" % i, "CE c%d" % i]
        g["setcreg-roundtrip"] += ["ED CR 0 1 p%d" % i, "ED CR 3 0 c%d" % i]
    for _ in range(2000):
        b = "b%02x%02x%02x" % (rng.below(256), rng.below(256), rng.below(256))
        g["encode-forms"].append("CE " + b)
        g["setcreg-roundtrip"].append("ED CR 0 0 " + b)
    for _ in range(4000 if tier == "quick" else 100000):
        g["palette-roundtrip"].append("ED R c2000000 c2000000 42000000 42000000 " + G.rpalette(rng, premul=True, default_ok=False))
    ts = [0, 1, 2, 127, 128, 253, 254, 255]
    nres = 20000 if tier == "quick" else 400000
    for _ in range(nres):
        t = rng.choice(ts + [rng.below(256)])
        c0, c1 = rng.below(256), rng.below(256)
        pal = sparse(rng, 6, G.rrgba)
        if c0 >= 0x80 and c0 < 0xc0:
            pal = "%d:%s," % (c0 - 0x80, G.rrgba(rng)) + "63:010203ff" if (c0 - 0x80) < 63 else pal
        creg = sparse(rng, 6, G.rrgba)
        g["resolve"].append("RS b%02x%02x%02x %s %s" % (t, c0, c1, pal if pal.count(":") else "-", creg))
    for c in ("p0", "p63", "c0", "c63", "#11223344", "p64", "p127", "p197", "c64", "c128", "c255"):
        g["resolve"].append("RS %s 0:aabbccdd,63:01020304 0:05060708,63:090a0b0c" % c)
    vals = [0, 1, 2, 3, 63, 64, 65, 127, 128, 255]
    for cb in vals:
        for nb in (0, 1, 63, 64, 255):
            for sh in (0, 1, 2, 3):
                for sp in (0, 1, 2, 3, 4, 7):
                    g["gradient-packing"].append("EGR %d %d %d %d %d" % (cb, nb, sh, sp, rng.choice(vals)))
    for _ in range(3000):
        g["gradient-packing"].append("DGR %08x" % rng.below(1 << 32))
    return g


def project(case, out):
    return out


def nontrivial(case, out):
    return not out.startswith("- 0")


def always_check(case, io):
    if io.startswith(("PANIC", "CRASH", "MISSING")):
        return True, io[:200]
    if case.startswith("RS b"):
        # blend endpoints on the implementation's own output are checked against the model anyway
        if "CONTEXT-MODIFIED" in io:
            return True, "Resolve modified the palette or the registers"
    return False, ""


def oracle(case, io, mo):
    return True, "colour differs from the model (proved to follow the specification's tables and the blend formula)"

"""C10 — Encoder protocol, sticky errors, zero value."""
import itertools
from .. import common as C
from .. import gen as G

PID = "C10"
RULE = ("exhaustive histories up to length 4 (quick) / 5 (thorough) over a 14-symbol alphabet of call classes "
        "(reset default/custom, selector read, LOD read, styling ok / bad-adj / bad-incr, start-path ok / bad, draw, close-move, "
        "arc, end-path, hi-res toggle), each instantiated with concrete random arguments, Bytes observed after every call; every history "
        "also run with an explicit Reset(default) in front (zero-value clause); plus long random histories. "
        "a Reset in the middle of a path with a pending run followed by a complete program whose bytes are decoded again (ED); Non-trivial: at least one Bytes observation succeeded and one call was made; distinct by script text.")
ASSUMPTIONS = ["error *kind* after a call that commits two violations at once is not fixed by the property: only presence and stickiness are compared"]

DEFRESET = ["R", "c2000000", "c2000000", "42000000", "42000000", "-"]


def sym(rng, s):
    if s == "reset":
        return list(DEFRESET)
    if s == "resetc":
        return ["R"] + G.rviewbox(rng) + [G.rpalette(rng)]
    if s == "rsel":
        return [rng.choice(["rc", "rn"])]
    if s == "rlod":
        return ["rl"]
    if s == "sty":
        return G.styling_op(rng)
    if s == "stybadadj":
        return ["CR", str(rng.choice([7, 8, 100, 255])), "0", "#112233ff"] if rng.below(2) else ["NR", str(rng.choice([7, 8, 255])), "0", "3f800000"]
    if s == "stybadincr":
        return ["CR", str(rng.range(1, 6)), "1", G.rcolor(rng)] if rng.below(2) else ["NR", str(rng.range(1, 6)), "1", G.fl(rng)]
    if s == "sp":
        return ["SP", str(rng.below(7)), G.fl(rng), G.fl(rng)]
    if s == "spbad":
        return ["SP", str(rng.choice([7, 8, 255])), G.fl(rng), G.fl(rng)]
    if s == "draw":
        return G.draw_op(rng, rng.choice(list("LlTtQqSsCcHhVv")))
    if s == "cmove":
        return G.draw_op(rng, rng.choice("Yy"))
    if s == "arc":
        return G.draw_op(rng, rng.choice("Aa"))
    if s == "end":
        return ["Z"]
    if s == "hires":
        return [rng.choice(["H0", "H1"])]
    raise KeyError(s)


ALPHA = ["reset", "resetc", "rsel", "rlod", "sty", "stybadadj", "stybadincr", "sp", "spbad", "draw", "cmove", "arc", "end", "hires"]


def instantiate(rng, word):
    t = []
    for s in word:
        t += sym(rng, s) + ["B"]
    return t


def generate(rng, tier):
    g = {"exhaustive": [], "exhaustive-after-default-reset": [], "random-long": [], "reset-mid-path-decoded": []}
    depth = 4 if tier == "quick" else 5
    for n in range(0, depth + 1):
        for w in itertools.product(ALPHA, repeat=n):
            t = instantiate(rng, w)
            g["exhaustive"].append("ENC " + " ".join(["B"] + t))
            if n <= 3 or tier == "thorough":
                g["exhaustive-after-default-reset"].append("ENC " + " ".join(DEFRESET + ["B"] + t))
    for _ in range(3000 if tier == "quick" else 40000):
        n = rng.range(5, 40)
        w = []
        for _ in range(n):
            r = rng.below(10)
            w.append(rng.choice(ALPHA) if r < 2 else rng.choice(["sty", "sp", "draw", "draw", "draw", "cmove", "arc", "end", "rsel", "rlod"]))
        g["random-long"].append("ENC " + " ".join(instantiate(rng, w)))
    # "history since the last Reset": a Reset in the middle of a path with a pending (unflushed) run, then a
    # complete program whose bytes are decoded again (ED: observable = decoded calls, not bytes)
    for _ in range(400 if tier == "quick" else 6000):
        t = ["SP", str(rng.below(7)), G.fl(rng), G.fl(rng)]
        v = rng.choice(list("LlTtQqSsCcHhVvAa"))
        for _ in range(rng.range(1, 6)):
            t += G.draw_op(rng, v)
        t += sym(rng, rng.choice(["reset", "resetc"]))
        if rng.below(3) == 0:
            t += sym(rng, "hires")
        for _ in range(rng.below(3)):
            t += sym(rng, "sty")
        t += ["SP", str(rng.below(7)), G.fl(rng), G.fl(rng)]
        v2 = v if rng.below(2) else rng.choice(list("LlTtQqSsCcHhVvAa"))
        for _ in range(rng.range(1, 6)):
            t += G.draw_op(rng, v2)
        t += ["Z"]
        g["reset-mid-path-decoded"].append("ED " + " ".join(t))
    return g


def project(case, out):
    toks = []
    for o in out.split():
        if o.startswith("B=ERR"):
            toks.append("B=ERR")
        elif o.startswith("B="):
            toks.append("B=ok")
        else:
            toks.append(o)
    return " ".join(toks)


def nontrivial(case, out):
    return "B=8" in out and len(case.split()) > 3


def split_calls(case):
    """positions of Reset tokens within the observation sequence: we need, per Bytes observation, whether a Reset preceded it"""
    return case.split()[1:]


def always_check(case, io):
    """stickiness of the first error on the implementation's own output"""
    if io.startswith(("PANIC", "CRASH", "MISSING")):
        return True, "implementation panicked or crashed: " + io[:200]
    toks = case.split()[1:]
    obs = io.split()
    # align observations with tokens that produce one
    oi = 0
    cur = None
    i = 0
    while i < len(toks):
        t = toks[i]
        if t == "R":
            cur = None
            i += 6
            continue
        if t in ("rc", "rn", "rl", "B"):
            if oi >= len(obs):
                return True, "missing observation"
            o = obs[oi]
            oi += 1
            if t == "B":
                if o.startswith("B=ERR"):
                    if cur is None:
                        cur = o
                    elif o != cur:
                        return True, "the first error %s was replaced by %s without a Reset" % (cur, o)
                else:
                    if cur is not None:
                        return True, "error %s disappeared without a Reset" % cur
            i += 1
            continue
        # skip a call and its arguments
        if t in ("H0", "H1", "Z"):
            i += 1
        elif t in ("CS", "NS"):
            i += 2
        elif t in ("CR", "NR", "SP"):
            i += 4
        elif t == "LOD":
            i += 3
        elif t in ("A", "a"):
            i += 7
        else:
            i += 1 + G.VERBS[t]
    return False, ""


def oracle(case, io, mo):
    return True, "error presence / read-backs differ from the model, whose behaviour is proved equal to the protocol automaton"

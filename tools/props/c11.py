"""C11 — the disassembly is a faithful, byte-complete listing of what decodes."""
from .. import common as C
from .. import gen as G

PID = "C11"
RULE = ("Decode and Disassemble run on the same bytes (DD): grammar-level streams covering every opcode, operand form, gradient-encoding "
        "and nonsensical colours, blends, every metadata variant; mutated / truncated / random streams for the accept-reject part. "
        "The listing text is parsed back into (hex column, structured payload) lines. Non-trivial: the listing has at least one "
        "instruction line; distinct by text.")
ASSUMPTIONS = ["fmt's %g/%v formatting of float32 round-trips through strconv.ParseFloat(s, 32) (trusted; NaN payloads are not printed and compare as 'nan')",
               "the rendering of a colour to text (Color.String) is mirrored by ocaml/driver.ml's color_str, not by a Coq definition"]
TRUSTED = ["harness/disasm.go: the parser that turns the listing text back into structured lines"]

INSTR = ("csel=", "nsel=", "setcreg=", "setnreg=", "startpath=", "setlod", "op=", "implicit=", "simple=")


def generate(rng, tier):
    g = {"streams": [], "colours": [], "mutated": [], "random": []}
    n = 5000 if tier == "quick" else 150000
    for _ in range(n):
        s = G.stream(rng, True)
        g["streams"].append("DD " + s)
        g["mutated"].append("DD " + G.mutate(rng, s))
        g["mutated"].append("DD " + G.MAGIC + G.metadata_bytes(rng, False))
    # every SetCReg form with colours of every textual class
    for form, nb in ((0, 1), (1, 2), (2, 3), (3, 4), (4, 3)):
        for _ in range(400):
            col = "".join("%02x" % rng.below(256) for _ in range(nb))
            if form == 3 and rng.below(2):
                col = "%02x%02x%02x00" % (rng.below(256), rng.below(256), 0x80 | rng.below(128))
            g["colours"].append("DD " + G.MAGIC + "00" + "%02x" % (0x80 + 8 * form + rng.below(8)) + col)
    for x in range(256):
        g["colours"].append("DD " + G.MAGIC + "00" + "80%02x" % x)
        g["colours"].append("DD " + G.MAGIC + "00" + "a040%02x%02x" % (x, 255 - x))
    for _ in range(n // 2):
        k = rng.range(0, 20)
        g["random"].append("DD " + G.MAGIC + "".join("%02x" % rng.below(256) for _ in range(k)))
    return g


def project(case, out):
    return out


def nontrivial(case, out):
    return any(("|" + k) in out for k in INSTR)


def always_check(case, io):
    if io.startswith(("PANIC", "CRASH", "MISSING")) or "PANIC" in io[:40]:
        return True, "panic / crash: " + io[:200]
    dec, _, dis = io.partition(" || ")
    if "INPUT-MODIFIED" in io or "LISTING-WITH-ERROR" in io:
        return True, io[:100]
    dec_o, _, calls = dec.partition(" | ")
    dis_o = dis.split(" ", 1)[0]
    if dec_o != dis_o:
        return True, "Decode says %s but Disassemble says %s" % (dec_o, dis_o)
    if dis_o == "OK":
        lines = dis.split()[1:]
        h = case.split()[1]
        col = "".join(l.split("|", 1)[0].replace("-", "") for l in lines)
        if col != ("" if h == "-" else h):
            return True, "hex column does not reproduce the input"
        if any("?" in l for l in lines):
            return True, "unparsed listing line: " + [l for l in lines if "?" in l][0]
        ninstr = sum(1 for l in lines if l.split("|", 1)[1].startswith(INSTR))
        t = calls.split()
        ncalls = sum(1 for x in t if x in ("CS", "NS", "CR", "NR", "LOD", "SP", "Z", "A", "a") or (len(x) == 1 and x in G.VERBS))
        if ninstr != ncalls:
            return True, "%d instruction lines for %d delivered operations" % (ninstr, ncalls)
    return False, ""


def oracle(case, io, mo):
    return True, "listing / verdict differ from the model (whose lines and calls are proved to be projections of one decoding)"

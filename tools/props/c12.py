"""C12 — aspect-preserving viewBox placement."""
from fractions import Fraction
from .. import common as C

PID = "C12"
RULE = ("viewBoxes and target sizes over 2^-20..2^20 with aspect ratios on both sides of equality incl. exactly equal, alignments {0, 1/2, 1, random}, "
        "meet and slice, plus Size; extreme magnitudes (1e-23..1e20) as a separate group. Observable: the four float32 results (bit patterns). "
        "Non-trivial: finite result with positive size; distinct by text.")
ASSUMPTIONS = ["bit-exact comparison with the float32 instance of the model; the theorems are about the same formulas over the reals"]


def pos(rng, wide=False):
    e = rng.range(-20, 20) if not wide else rng.choice([-76, -60, 60, 66])
    return (1 + rng.below(1 << 10) / 1024.0) * 2.0 ** e


def generate(rng, tier):
    g = {"fit": [], "equal-aspect": [], "extreme": [], "size": []}
    n = 20000 if tier == "quick" else 500000
    for _ in range(n):
        w, h = pos(rng), pos(rng)
        x0, y0 = (rng.below(2001) - 1000) / 8.0, (rng.below(2001) - 1000) / 8.0
        dx, dy = pos(rng), pos(rng)
        ax = rng.choice([0.0, 0.5, 1.0, rng.below(1025) / 1024.0])
        ay = rng.choice([0.0, 0.5, 1.0, rng.below(1025) / 1024.0])
        kind = rng.choice(["meet", "slice"])
        vb = [x0, y0, x0 + w, y0 + h]
        fv = [C.bits_f32(C.f32_bits(v)) for v in vb]
        if not (fv[2] > fv[0] and fv[3] > fv[1]):
            continue
        g["fit"].append("FIT %s %s" % (kind, " ".join(C.fh(v) for v in vb + [dx, dy, ax, ay])))
        if rng.below(8) == 0:
            k = rng.choice([0.5, 1, 2, 3, 0.75])
            g["equal-aspect"].append("FIT %s %s" % (kind, " ".join(C.fh(v) for v in [0.0, 0.0, w, h, w * k, h * k, ax, ay])))
        if rng.below(20) == 0:
            g["size"].append("FIT size %s" % " ".join(C.fh(v) for v in vb))
        if rng.below(20) == 0:
            e = rng.choice([-80, -76, -60, 60, 66, 70])
            m = lambda: (1 + rng.below(1 << 10) / 1024.0) * 2.0 ** (e + rng.range(-2, 2))
            w2, h2, dx2, dy2 = m(), m(), m(), m()
            g["extreme"].append("FIT %s %s" % (kind, " ".join(C.fh(v) for v in [0.0, 0.0, w2, h2, dx2, dy2, ax, ay])))
    return g


def project(case, out):
    return out


def nontrivial(case, out):
    try:
        v = [C.bits_f32(int(x, 16)) for x in out.split()]
    except ValueError:
        return False
    return all(x == x and abs(x) != float("inf") for x in v)


def oracle(case, io, mo):
    """exact rational check of the property on the implementation's output, tolerance 2^-18 relative to the target size"""
    t = case.split()
    if t[1] == "size":
        return True, "Size differs from max - min"
    try:
        vb = [Fraction(C.bits_f32(int(x, 16))) for x in t[2:6]]
        dx, dy, ax, ay = (Fraction(C.bits_f32(int(x, 16))) for x in t[6:10])
        r = [Fraction(C.bits_f32(int(x, 16))) for x in io.split()]
    except (ValueError, OverflowError):
        return True, "non-finite result"
    vw, vh = vb[2] - vb[0], vb[3] - vb[1]
    if vw <= 0 or vh <= 0 or len(r) != 4:
        return True, "malformed"
    w, h = r[2] - r[0], r[3] - r[1]
    tol = Fraction(1, 1 << 18) * max(dx, dy, abs(w), abs(h))
    if abs(w * vh - h * vw) > tol * max(vw, vh):
        return True, "aspect ratio not preserved"
    if t[1] == "meet":
        exp_w, exp_h = (dx, dx * vh / vw) if dx * vh <= dy * vw else (dy * vw / vh, dy)
    else:
        exp_w, exp_h = (dx, dx * vh / vw) if dx * vh >= dy * vw else (dy * vw / vh, dy)
    if abs(w - exp_w) > tol or abs(h - exp_h) > tol:
        return True, "size differs from the %s fit: got %s x %s, want %s x %s" % (t[1], float(w), float(h), float(exp_w), float(exp_h))
    if abs(r[0] - (dx - exp_w) * ax) > tol or abs(r[1] - (dy - exp_h) * ay) > tol:
        return True, "slack not divided according to the alignment fractions"
    return False, "within 2^-18 of the exact fit but not bit-identical"

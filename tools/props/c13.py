"""C13 — metadata: defaults, suggested palette, viewBox validation, chunk framing."""
from .. import common as C
from .. import gen as G

PID = "C13"
RULE = ("metadata sections with 0/1/2 chunks (and repeated / reversed / 3+), every palette format x entry count class x random colour bytes, "
        "viewBox coordinates in every number form incl. min==max, inverted, NaN, Inf, declared lengths off by -3..+3 and large, chunk "
        "counts far larger than the data, every truncation of a sample; through Decode (Reset arguments + error) and DecodeViewBox. "
        "Non-trivial: the magic was accepted; distinct by text.")
ASSUMPTIONS = []


def generate(rng, tier):
    g = {"well-formed": [], "malformed": [], "viewbox-only": [], "truncations": [], "counts": []}
    n = 8000 if tier == "quick" else 200000
    for _ in range(n):
        s = G.MAGIC + G.metadata_bytes(rng, True)
        g["well-formed"].append("DEC " + s)
        g["viewbox-only"].append("DVB " + s)
        s = G.MAGIC + G.metadata_bytes(rng, False) + ("" if rng.below(2) else G.styling_bytes(rng))
        g["malformed"].append("DEC " + s)
        g["viewbox-only"].append("DVB " + s)
    for _ in range(300 if tier == "quick" else 3000):
        s = G.MAGIC + G.metadata_bytes(rng, True)
        for i in range(0, len(s) // 2 + 1):
            g["truncations"].append("DEC " + (s[:2 * i] or "-"))
            g["truncations"].append("DVB " + (s[:2 * i] or "-"))
    for nc in (0, 1, 2, 3, 63, 64, 127, 128, 16383, 16384, (1 << 30) - 1):
        for w in (1, 2, 4):
            if (w == 1 and nc >= 128) or (w == 2 and nc >= 16384):
                continue
            for tail in ("", "0a004040c0c0", "0a004040c0c0" * 2, "0a004040c0c0" + "030200" + "00", "030200" + "00" + "0a004040c0c0", "00", "01"):
                g["counts"].append("DEC " + G.MAGIC + G.natural_bytes(nc, w) + tail)
                g["counts"].append("DVB " + G.MAGIC + G.natural_bytes(nc, w) + tail)
    return g


def project(case, out):
    k = case.split()[0]
    if k == "DEC":
        # outcome and the Reset call only (instructions belong to C03)
        o, _, calls = out.partition(" | ")
        t = calls.split()
        return o + " | " + " ".join(t[:6])
    return out


def nontrivial(case, out):
    return not out.startswith("ERR3")


def oracle(case, io, mo):
    return True, "Reset arguments / metadata verdict differ from the model (proved to implement the metadata grammar)"

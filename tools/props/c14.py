"""C14 — palette options override exactly what they say, and are sanitised."""
from .. import common as C
from .. import gen as G
from .. import rgen as R

PID = "C14"
RULE = ("random option lists (0..5 options: full palette replacements and single-index overrides in any order, repeats of the same index, indices 0, 1, 62, 63) "
        "with colours that are valid, non-premultiplied, gradient-looking, or converted by Go from NRGBA/RGBA64/Gray/Alpha models, over streams with 0/1/2 metadata "
        "chunks and instructions that use palette indices in registers, blends and as initial CREG contents; through Decode into a recorder (Reset palette) "
        "and into a Renderer (paints). Out-of-range indices are checked as a panic outcome before any call. Non-trivial: at least one option; distinct by text.")
ASSUMPTIONS = ["color.RGBAModel.Convert is taken from Go: the harness converts other colour models and passes the resulting RGBA to the model"]


def go_rgba(model, raw):
    """color.RGBAModel.Convert for the colour models used"""
    if model == "nrgba":
        r, g, b, a = (raw >> 24) & 255, (raw >> 16) & 255, (raw >> 8) & 255, raw & 255
        f = lambda c: (((c | (c << 8)) * a) // 0xff) >> 8
        return "%02x%02x%02x%02x" % (f(r), f(g), f(b), a)
    if model == "rgba64":
        return "%02x%02x%02x%02x" % ((raw >> 56) & 255, (raw >> 40) & 255, (raw >> 24) & 255, (raw >> 8) & 255)
    if model == "gray16":
        y = (raw >> 8) & 255
        return "%02x%02x%02xff" % (y, y, y)
    if model == "alpha16":
        a = (raw >> 8) & 255
        return "%02x%02x%02x%02x" % (a, a, a, a)
    raise KeyError(model)


def ropt(rng):
    if rng.below(4) == 0:
        model = rng.choice(["nrgba", "nrgba", "rgba64", "gray16", "alpha16"])
        raw = rng.below(1 << (32 if model == "nrgba" else 64 if model == "rgba64" else 16))
        width = 8 if model == "nrgba" else 16 if model == "rgba64" else 4
        return "OJ:%d:%s:%0*x:%s" % (rng.choice([0, 1, 63, rng.below(64)]), model, width, raw, go_rgba(model, raw))
    if rng.below(3) == 0:
        return "OP:" + G.rpalette(rng, premul=rng.below(2) == 0, default_ok=True)
    return "OI:%d:%s" % (rng.choice([0, 0, 1, 2, 31, 62, 63, rng.below(64)]), G.rrgba(rng) if rng.below(3) else G.rpremul(rng))


def generate(rng, tier):
    g = {"decode-with-options": [], "render-with-options": [], "bad-index": []}
    n = 6000 if tier == "quick" else 150000
    for _ in range(n):
        s = G.MAGIC + G.metadata_bytes(rng, True)
        # instructions using palette indices: CREG[k] = pal[i]; blend of pal and creg; start path with the initial CREG
        ins = ""
        for _ in range(rng.range(0, 3)):
            ins += "%02x%02x" % (0x80 + rng.below(7), 0x80 + rng.below(64))
        ins += "a0%02x%02x%02x" % (rng.below(256), 0x80 + rng.below(64), 0xc0 + rng.below(64))
        ins += "c0" + "8080" + "00" + "9090" + "e1" + "c1" + "8080" + "00" + "7070" + "e1"
        opts = [ropt(rng) for _ in range(rng.range(0, 5))]
        g["decode-with-options"].append("DEC " + s + ins + " " + " ".join(opts))
        g["render-with-options"].append("DREN 0 0 32 32 " + s + ins + " " + " ".join(opts))
    # a full replacement by the all-transparent palette (the zero value of [64]color.RGBA), alone, before and after overrides
    zero = ",".join("%d:00000000" % i for i in range(64))
    g["zero-palette"] = []
    for _ in range(200 if tier == "quick" else 4000):
        n = rng.choice([1, 3, 64])
        pal = "%02x" % ((n - 1) | 0xc0) + "".join(G.rpremul(rng) for _ in range(n))
        s = G.MAGIC + "02" + G.natural_bytes(1 + len(pal) // 2) + "02" + pal
        ins = "%02x%02x" % (0x80, 0x80 + rng.below(4)) + "c0" + "8080" + "00" + "9090" + "e1" + "c1" + "8080" + "00" + "7070" + "e1"
        for opts in (["OP:" + zero], ["OI:%d:%s" % (rng.below(4), G.rpremul(rng)), "OP:" + zero],
                     ["OP:" + zero, "OI:%d:%s" % (rng.below(4), G.rpremul(rng))], ["OP:" + G.rpalette(rng), "OP:" + zero], ["OP:-"]):
            g["zero-palette"].append("DEC " + s + ins + " " + " ".join(opts))
            g["zero-palette"].append("DREN 0 0 16 16 " + s + ins + " " + " ".join(opts))
    # one Renderer used for two graphics with the same palette: the second starts from the palette again
    g["same-palette-reuse"] = []
    for _ in range(300 if tier == "quick" else 6000):
        pal = ",".join("%d:%s" % (i, G.rpremul(rng)) for i in sorted(set([0, 1, 63, rng.below(64)])))
        vb = R.viewbox(rng)
        a = ["R"] + vb + [pal]
        for i in (0, 1, 63):
            a += ["CS", str(i), "CR", "0", "0", "#" + G.rpremul(rng)]
        a += R.path(rng, verbs=["L"], n=2, adj=0)
        b = ["R"] + (vb if rng.below(2) else R.viewbox(rng)) + [pal]
        for adj in (0, 1, rng.below(7)):
            b += R.path(rng, verbs=["L", "l"], n=2, adj=adj)
        g["same-palette-reuse"].append("REUSE 0 0 24 24 " + " ".join(a) + " | " + " ".join(b))
    for i in (-1, 64, 65, 1000):
        g["bad-index"].append("DEC " + G.MAGIC + "00 OI:%d:112233ff" % i)
        g["bad-index"].append("DEC " + G.MAGIC + "00 OI:0:112233ff OI:%d:112233ff" % i)
    return g


def project(case, out):
    return out


def nontrivial(case, out):
    return " O" in case


def always_check(case, io):
    if case.startswith("REUSE"):
        a, _, b = io.partition(" || ")
        if a != b:
            return True, "a Renderer reused with the same palette paints differently from a fresh one"
    if "INPUT-MODIFIED" in io or "OPTION-PALETTE-MODIFIED" in io or "OPTIONS-SLICE-MODIFIED" in io:
        return True, io[:100]
    return False, ""


def oracle(case, io, mo):
    return True, "palette delivered to Reset / paints differ from the model (options folded in order over the suggested palette, then sanitised)"

"""C15 — gradient paint: premultiplied interpolation, spread modes, geometry."""
import struct
from .. import common as C
from .. import gen as G
from .. import rgen as R

PID = "C15"
RULE = ("Spread.Clamp on a grid (all integers and half-integers in [-5,5], 0/1 and their neighbours, huge, NaN, Inf) and random float64 x 4 spreads; "
        "Gradient.At of gradients set up through the register machine: 2..20 strictly increasing stops (first > 0 / last < 1 variants, transparent colours), "
        "all spreads, both shapes, sheared matrices, non-uniform viewBox-to-rectangle maps, at pixels chosen so that offsets fall on integers, on stops, "
        "between stops and far outside [0,1], and random pixels. Observable: Clamp's float64 bits; RGBA64 returned by At. "
        "Non-trivial: a gradient paint was evaluated; distinct by text.")
ASSUMPTIONS = ["int(x)&1 of a float64 beyond int64 range follows amd64 (result even); such x only in the malformed stream"]


def f64h(x):
    return "%016x" % struct.unpack("<Q", struct.pack("<d", x))[0]


def generate(rng, tier):
    g = {"clamp-grid": [], "clamp-random": [], "at-axis": [], "at-random": []}
    xs = [k / 4.0 for k in range(-20, 21)] + [-0.0, 1 - 2.0 ** -53, 1 + 2.0 ** -52, -2.0 ** -60, 2.0 ** 53, -2.0 ** 53 - 2, 1e19, -1e19, 2.0 ** 63, float("nan"), float("inf"), float("-inf"), 3.0000000000000004, 2.9999999999999996]
    for x in xs:
        for s in range(4):
            g["clamp-grid"].append("CLAMP %d %s" % (s, f64h(x)))
    for _ in range(4000 if tier == "quick" else 200000):
        x = (rng.below(1 << 40) / float(1 << 40) - 0.5) * rng.choice([2, 4, 10, 1000])
        g["clamp-random"].append("CLAMP %d %s" % (rng.below(4), f64h(x)))
    # axis-aligned gradient over viewBox 0..16 on a 16x16 rectangle: pixel x maps to offset a*(x+0.5)+c
    for spread in range(4):
        for shape in range(2):
            for (a, c) in ((1 / 8.0, 1 / 16.0), (1 / 16.0, 0.0), (0.25, -1.0), (-0.125, 1.0), (1.0, -3.5), (0.5, 0.25)):
                for ns in (2, 3, 5):
                    stops = R.good_stops(rng, ns)
                    mat = [C.fh(a), C.fh(0.0), C.fh(c - a * 0.5), C.fh(0.0), C.fh(0.0 if shape == 0 else a * 0), C.fh(0.0)]
                    vb = [C.fh(0.0), C.fh(0.0), C.fh(16.0), C.fh(16.0)]
                    pix = ["%d,%d" % (x, 3) for x in range(-20, 40)]
                    body = ["R"] + vb + ["-"] + R.gradient_regs(rng, 10, 10, stops, shape, spread, mat=mat, sel=0) + R.full_rect_path(vb)
                    g["at-axis"].append("GRAD 0 0 16 16 %d %s %s" % (len(pix), " ".join(pix), " ".join(body)))
    # the six matrix registers sit below NBASE modulo 64: every NBASE, both shapes
    g["nbase-sweep"] = []
    for nb in range(64):
        for shape in range(2):
            stops = R.good_stops(rng, 3)
            mat = [C.fh(x) for x in (1 / 8.0, 1 / 32.0, -0.75, -1 / 16.0, 3 / 16.0, -1.25)]
            vb = [C.fh(0.0), C.fh(0.0), C.fh(16.0), C.fh(16.0)]
            pix = ["%d,%d" % (x, y) for x in (0, 5, 11, 15) for y in (1, 8, 14)]
            body = ["R"] + vb + ["-"] + R.gradient_regs(rng, 20, nb, stops, shape, rng.below(4), mat=mat, sel=0) + R.full_rect_path(vb)
            g["nbase-sweep"].append("GRAD 0 0 16 16 %d %s %s" % (len(pix), " ".join(pix), " ".join(body)))
    g["retarget-gradient"] = []
    for _ in range(300 if tier == "quick" else 6000):
        vb, rc, rc2 = R.viewbox(rng), R.rect(rng), R.rect(rng)
        stops = R.good_stops(rng, rng.choice([2, 3]))
        pix = ["%d,%d" % (rng.range(-10, 200), rng.range(-10, 200)) for _ in range(8)]
        body = ["R"] + vb + ["-"] + R.gradient_regs(rng, 10, 10, stops, rng.below(2), rng.below(4), sel=0) + R.full_rect_path(vb)
        body += ["SR"] + [str(x) for x in rc2] + R.full_rect_path(vb)
        g["retarget-gradient"].append("GRAD %d %d %d %d %d %s %s" % (rc[0], rc[1], rc[2], rc[3], len(pix), " ".join(pix), " ".join(body)))
    for _ in range(2500 if tier == "quick" else 100000):
        vb, rc = R.viewbox(rng), R.rect(rng)
        ns = rng.choice([2, 2, 3, 4, 7, 20])
        stops = R.good_stops(rng, ns)
        if rng.below(4) == 0:
            stops[rng.below(ns)] = (stops[rng.below(ns)][0], "00000000")
            stops.sort(key=lambda s: C.bits_f32(int(s[0], 16)))
            if len(set(s[0] for s in stops)) != ns:
                continue
        pix = ["%d,%d" % (rng.range(-50, 350), rng.range(-50, 350)) for _ in range(12)]
        body = ["R"] + vb + ["-"] + R.gradient_regs(rng, rng.choice([0, 10, 58, 63]), rng.choice([0, 1, 2, 3, 4, 5, 6, 10, 58, 63, rng.below(64)]), stops, rng.below(2), rng.below(4), sel=0) + R.full_rect_path(vb)
        g["at-random"].append("GRAD %d %d %d %d %d %s %s" % (rc[0], rc[1], rc[2], rc[3], len(pix), " ".join(pix), " ".join(body)))
    return g


def project(case, out):
    if case.startswith("CLAMP"):
        b = int(out, 16) if len(out) == 16 else 0
        if (b >> 52) & 0x7ff == 0x7ff and b & ((1 << 52) - 1):
            return "nan"
    return out


def nontrivial(case, out):
    return case.startswith("CLAMP") or ("," in out and "flat" not in out)


def always_check(case, io):
    if io.startswith(("PANIC", "CRASH", "MISSING")):
        return True, io[:200]
    if case.startswith("GRAD"):
        for grp in io.split():
            if grp.startswith("flat"):
                continue
            for px in grp.split(","):
                if len(px) == 16:
                    r, g_, b, a = (int(px[i:i + 4], 16) for i in (0, 4, 8, 12))
                    if r > a or g_ > a or b > a:
                        return True, "At returned a non-premultiplied colour %s" % px
    return False, ""


def oracle(case, io, mo):
    if case.startswith("CLAMP"):
        return True, "Clamp differs from the spread-mode definition"
    a, b = io.replace(",", " ").split(), mo.replace(",", " ").split()
    if len(a) != len(b):
        return True, "different number of gradient evaluations"
    for x, y in zip(a, b):
        if x != y:
            if len(x) != 16 or len(y) != 16:
                return True, "different paints"
            d = max(abs(int(x[i:i + 4], 16) - int(y[i:i + 4], 16)) for i in (0, 4, 8, 12))
            if d > 2:
                return True, "gradient colour differs by %d (16-bit channel units)" % d
    return False, "gradient colours agree within 2/65535 per channel but not exactly"

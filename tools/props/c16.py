"""C16 — pixels are invariant under re-expression of the same picture (partial: pixels are x/image/vector's)."""
from .. import common as C
from .. import gen as G
from .. import rgen as R

PID = "C16"
RULE = ("graphics with flat and gradient fills and all verbs incl. arcs rendered by raster/vec into RGBA and Alpha images: (a) own image vs a rectangle at an offset "
        "inside a larger pre-filled image (guard band compared before/after), sizes 1..600; (b) the same script with viewBox, coordinates, radii scaled by 2^k and "
        "gradient matrices by 2^-k, k in -3..3; (c) palette / register / blend colours vs the resolved direct colours; (d) DrawOp=Src on a pre-filled destination "
        "against a replay of the recorded rasteriser calls on a plain vector.Rasterizer with Src for the first Draw and Over afterwards. "
        "The model's side of each case is the expected verdict (and, for (d), the number of paths drawn). Non-trivial: something was drawn; distinct by text.")
ASSUMPTIONS = ["pixels are produced by golang.org/x/image/vector, which is not modelled: this part of C16 is a metamorphic run on the implementation, not a theorem",
               "scale exponents are limited so that no float32 overflow/underflow occurs"]


def scaled(bits_hex, k):
    return C.fh(C.bits_f32(int(bits_hex, 16)) * 2.0 ** k)


class Script:
    """a structured graphic that can be printed at a scale exponent k, with indirect or direct colours"""

    def __init__(self, rng, gradients=True, arcs=True, lod_h=None, tiny=False):
        self.vb = R.viewbox(rng)
        self.pal = G.rpalette(rng)
        self.items = []   # ("creg", adj, incr, color) | ("grad", cbase, nbase, stops, shape, spread, mat, sel) | ("path", adj, tokens) | ("lod", l0, l1)
        for _ in range(rng.range(1, 4)):
            r = rng.below(6)
            if lod_h is not None and rng.below(2):
                # level-of-detail bounds around the height of the target rectangle (not around its bottom edge)
                l0 = rng.choice([0, 0, lod_h, lod_h + 1, lod_h - 1])
                l1 = rng.choice([lod_h + 1, lod_h + 2, lod_h + 6, lod_h + 12, 1e9, lod_h])
                self.items.append(("lod", C.fh(float(max(l0, 0))), C.fh(float(l1))))
            if r < 2:
                self.items.append(("creg", 0, False, G.rcolor(rng)))
            elif r == 2 and gradients:
                ns = rng.range(2, 4)
                mat = [C.fh(x) for x in (rng.range(1, 64) / 64.0, rng.range(-32, 32) / 64.0, rng.range(-64, 64) / 16.0,
                                         rng.range(-32, 32) / 64.0, rng.range(1, 64) / 64.0, rng.range(-64, 64) / 16.0)]
                self.items.append(("grad", 10, 10, R.good_stops(rng, ns), rng.below(2), rng.below(4), mat))
            p = [("SP", [R.mf(rng), R.mf(rng)])]
            for _ in range(rng.range(2, 6)):
                v = rng.choice(R.NONARC + (["A", "a"] if arcs else []))
                if v in ("A", "a"):
                    if tiny and rng.below(2):
                        # radii far too small for the chord: scaled up uniformly as SVG prescribes
                        rad = [C.fh(rng.choice([0.002, 0.003, 0.005, 1 / 256.0, 1 / 512.0])), C.fh(rng.choice([0.002, 0.003, 0.004, 1 / 256.0, 1 / 300.0]))]
                    else:
                        rad = [C.fh(rng.range(1, 200) / 8.0), C.fh(rng.range(1, 200) / 8.0)]
                    p.append((v, rad, C.fh(rng.below(24) / 24.0), str(rng.below(4)), [R.mf(rng), R.mf(rng)]))
                else:
                    p.append((v, [R.mf(rng) for _ in range(G.VERBS[v])]))
            self.items.append(("path", 0, p))

    def tokens(self, k=0, direct=False):
        sc = lambda h: scaled(h, k)
        t = ["R"] + [sc(x) for x in self.vb] + [self.pal]
        vm = ColorVM(self.pal)
        for it in self.items:
            if it[0] == "creg":
                col = it[3]
                if direct:
                    col = "#" + vm.resolve(col)
                vm.set(0, col)
                t += ["CS", "0", "CR", "0", "0", col]
            elif it[0] == "lod":
                t += ["LOD", it[1], it[2]]
            elif it[0] == "grad":
                _, cb, nb, stops, shape, spread, mat = it
                m = list(mat)
                for i in (0, 1, 3, 4):
                    m[i] = scaled(m[i], -k)
                t += ["NS", str((nb - 6) % 64)]
                for x in m:
                    t += ["NR", "0", "1", x]
                for off, _ in stops:
                    t += ["NR", "0", "1", off]
                t += ["CS", str(cb)]
                for _, col in stops:
                    t += ["CR", "0", "1", "#" + col]
                gcol = "%02x%02x%02x00" % (len(stops), cb | (spread << 6), nb | ((2 | shape) << 6))
                t += ["CS", "0", "CR", "0", "0", "#" + gcol]
                vm.set(0, "#" + gcol)
            else:
                for op in it[2]:
                    if op[0] == "SP":
                        t += ["SP", "0"] + [sc(x) for x in op[1]]
                    elif op[0] in ("A", "a"):
                        t += [op[0]] + [sc(x) for x in op[1]] + [op[2], op[3]] + [sc(x) for x in op[4]]
                    else:
                        t += [op[0]] + [sc(x) for x in op[1]]
                t.append("Z")
        return t


class ColorVM:
    """colour registers as the decoding machine keeps them (for the indirect-vs-direct pair)"""

    def __init__(self, pal):
        self.pal = ["000000ff"] * 64
        if pal != "-":
            for e in pal.split(","):
                i, c = e.split(":")
                self.pal[int(i)] = c
        self.creg = list(self.pal)
        self.csel = 0

    def dec1(self, x):
        if x >= 0xc0:
            return self.creg[x & 0x3f]
        if x >= 0x80:
            return self.pal[x & 0x3f]
        if x == 125:
            return "c0c0c0c0"
        if x == 126:
            return "80808080"
        if x == 127:
            return "00000000"
        t = [0x00, 0x40, 0x80, 0xc0, 0xff]
        return "%02x%02x%02xff" % (t[x // 25], t[(x // 5) % 5], t[x % 5])

    def resolve(self, col):
        if col[0] == "#":
            return col[1:]
        if col[0] == "p":
            return self.pal[int(col[1:]) & 0x3f]
        if col[0] == "c":
            return self.creg[int(col[1:]) & 0x3f]
        t, c0, c1 = (int(col[i:i + 2], 16) for i in (1, 3, 5))
        a, b = self.dec1(c0), self.dec1(c1)
        out = ""
        for i in (0, 2, 4, 6):
            out += "%02x" % ((((255 - t) * int(a[i:i + 2], 16) + t * int(b[i:i + 2], 16) + 128) // 255) & 255)
        return out

    def set(self, adj, col):
        self.creg[(self.csel - adj) & 0x3f] = self.resolve(col)


def generate(rng, tier):
    g = {"offset": [], "scale": [], "indirect-colours": [], "drawop": []}
    n = 400 if tier == "quick" else 6000
    sizes = [1, 2, 7, 16, 24, 33, 64, 100, 200, 300, 520, 600]
    for _ in range(n):
        s = Script(rng)
        t = s.tokens()
        kind = rng.choice(["rgba", "rgba", "alpha"])
        w, h = rng.choice(sizes), rng.choice(sizes)
        if w * h > 120000:
            w, h = rng.choice(sizes[:8]), rng.choice(sizes[:8])
        g["offset"].append("PIXOFF %s %d %d %d %d %s" % (kind, w, h, rng.choice([0, 1, 3, 17]), rng.choice([0, 2, 5, 11]), " ".join(t)))
        k = rng.choice([-3, -2, -1, 1, 2, 3])
        w2 = rng.choice(sizes[:9])
        g["scale"].append("PIXEQ %s %d %d %s | %s" % (kind, w2, rng.choice(sizes[:9]), " ".join(t), " ".join(s.tokens(k=k))))
        s2 = Script(rng, gradients=False)
        g["indirect-colours"].append("PIXEQ %s %d %d %s | %s" % (kind, w2, w2, " ".join(s2.tokens()), " ".join(s2.tokens(direct=True))))
        if rng.below(4) == 0:
            vbg = ["c2000000", "c2000000", "42000000", "42000000"]
            sel = rng.range(20, 40)
            j = rng.range(41, 60)
            stops = R.good_stops(rng, rng.choice([2, 3]))
            base = ["R"] + vbg + ["-"] + R.gradient_regs(rng, 10, 10, stops, rng.below(2), rng.choice([1, 2, 3]), sel=sel)
            desc = base[-1]
            blend = "b%02x%02x%02x" % (rng.below(256), 0xc0 | sel, 0xc0 | sel)
            a = base + ["CS", str(j), "CR", "0", "0", blend] + R.full_rect_path(vbg)
            b = base + ["CS", str(j), "CR", "0", "0", desc] + R.full_rect_path(vbg)
            g.setdefault("blended-gradient", []).append("PIXEQ %s %d %d %s | %s" % (kind, w2, w2, " ".join(a), " ".join(b)))
        s3 = Script(rng)
        t3 = s3.tokens()
        # make sure translucent flat colours occur so that Src and Over differ
        t3 = t3[:6] + ["CS", "0", "CR", "0", "0", "#" + rng.choice(["80000080", "40404040", "00008080", G.rpremul(rng)])] + t3[6:]
        g["drawop"].append("PIXOP %s %d %d %s" % (kind, rng.choice(sizes[2:8]), rng.choice(sizes[2:8]), " ".join(t3)))
        if rng.below(3) == 0:
            ab = ["R", "c2000000", "c2000000", "42000000", "42000000", "-", "SP", "0", C.fh(float(rng.range(-20, 20))), C.fh(float(rng.range(-20, 20))),
                  "L", C.fh(float(rng.range(-20, 20))), C.fh(float(rng.range(-20, 20)))]
            g.setdefault("drawop-after-abandoned-path", []).append("PIXOP %s %d %d %s" % (kind, rng.choice(sizes[2:8]), rng.choice(sizes[2:8]), " ".join(ab + t3)))
        # far larger scale exponents (no float32 overflow / underflow yet): quantities of higher degree in the coordinates
        # (products of radii and offsets in the arc code) move by 2^(4k)
        k7 = rng.choice([-14, -12, -10, -9, -8, 8, 10, 12])
        g.setdefault("scale-deep", []).append("PIXEQ %s %d %d %s | %s" % (kind, w2, rng.choice(sizes[:9]), " ".join(t), " ".join(s.tokens(k=k7))))
        # the first Draw consumes the operator even when it goes to an empty rectangle (then the Renderer is re-targeted)
        s6 = Script(rng, gradients=False)
        t6 = s6.tokens()
        w6, h6 = rng.choice(sizes[2:8]), rng.choice(sizes[2:8])
        g.setdefault("drawop-retarget", []).append("PIXOP %s %d %d SR 0 0 0 0 %s SR 0 0 %d %d %s" % (kind, w6, h6, " ".join(t6), w6, h6, " ".join(t3)))
        # level of detail is decided by the rectangle's height, wherever the rectangle sits
        h4 = rng.choice(sizes[:9])
        s4 = Script(rng, lod_h=h4)
        g.setdefault("offset-lod", []).append("PIXOFF %s %d %d %d %d %s" % (kind, rng.choice(sizes[:9]), h4, rng.choice([0, 1, 3, 17]), rng.choice([1, 2, 5, 11, 40]), " ".join(s4.tokens())))
        # arcs with tiny radii, scaled down further
        s5 = Script(rng, tiny=True)
        k5 = rng.choice([-6, -5, -4, -3, -2, 2, 4])
        g.setdefault("scale-tiny-radii", []).append("PIXEQ %s %d %d %s | %s" % (kind, w2, rng.choice(sizes[:9]), " ".join(s5.tokens()), " ".join(s5.tokens(k=k5))))
    return g


def project(case, out):
    return out


def nontrivial(case, out):
    return "same" in out or ("paths=" in out and not out.endswith("paths=0"))


def oracle(case, io, mo):
    if "DIFFERENT" in io or "MODIFIED" in io or "WRONG" in io:
        return True, "pixels differ between two expressions of the same picture: " + io
    return True, "number of drawn paths differs from the model: " + io + " vs " + mo

"""C17 — Encoders and Renderers carry no state across Reset; output is deterministic."""
from .. import common as C
from .. import gen as G
from .. import rgen as R
from . import c10

PID = "C17"
RULE = ("pairs (A, B): A drawn from well-formed, erroneous (protocol violations) and truncated (mid-path, pending runs, hi-res on, dirtied registers / selectors "
        "/ LOD / smooth-curve state, disabled paths, gradient paints) histories, B a well-formed program starting with Reset. Encoder: A then B on one Encoder "
        "vs B on a fresh one (Bytes twice). Renderer: A then B on one Renderer and rasteriser vs B on fresh objects. "
        "Non-trivial: B produced bytes / a Draw; distinct by text.")
ASSUMPTIONS = []


def history_a(rng):
    t = []
    k = rng.below(6)
    if k == 0:
        return G.program(rng)
    words = [rng.choice(c10.ALPHA) for _ in range(rng.range(1, 12))]
    t = c10.instantiate(rng, words)
    t = [x for x in t if x != "B" or rng.below(3) == 0]
    if rng.below(2):
        t += ["H1"]
    if rng.below(2):   # leave a path open with a pending run
        t += ["SP", "0", G.fl(rng), G.fl(rng)] + G.draw_op(rng, "L") + G.draw_op(rng, "L")
    return t


def render_a(rng):
    t = []
    if rng.below(4):
        t += ["R"] + R.viewbox(rng) + [G.rpalette(rng)]
    for _ in range(rng.range(0, 3)):
        t += ["NS", str(rng.below(64)), "CS", str(rng.below(64)), "LOD", C.fh(float(rng.choice([0, 10, 1000]))), C.fh(float(rng.choice([5, 100, 1e9])))]
        for _ in range(rng.range(0, 4)):
            t += ["CR", str(rng.below(7)), "0", G.rcolor(rng), "NR", str(rng.below(7)), str(rng.below(2)) if False else "0", R.mf(rng)]
        if rng.below(2):
            t += R.gradient_regs(rng, 10, 10, R.good_stops(rng, rng.range(2, 4)), rng.below(2), rng.below(4), sel=0)
        p = R.path(rng, n=rng.range(1, 5), arcs=True)
        if rng.below(3) == 0:
            p = p[:-1]       # left open
        t += p
    return t


def render_b(rng):
    t = ["R"] + R.viewbox(rng) + [G.rpalette(rng)]
    for _ in range(rng.range(1, 3)):
        if rng.below(2):
            # relies on selectors / registers starting from zero
            t += ["NR", "0", "1", R.mf(rng), "CR", "0", "1", "#" + G.rpremul(rng)]
        if rng.below(3) == 0:
            t += R.gradient_regs(rng, 10, 10, R.good_stops(rng, 2), 0, 1, sel=None)
            t = t[:-6] + ["CS", "3", "CR", "0", "0", t[-1]]
            t += ["SP", "0", R.mf(rng), R.mf(rng)] + R.draw(rng, rng.choice("TtSs")) + R.draw(rng, "L") + ["Z"]
        else:
            t += ["SP", str(rng.below(2)), R.mf(rng), R.mf(rng)] + R.draw(rng, rng.choice("TtSs")) + R.draw(rng, rng.choice(R.NONARC)) + ["Z"]
    return t


def generate(rng, tier):
    g = {"encoder-reuse": [], "renderer-reuse": []}
    n = 6000 if tier == "quick" else 200000
    for _ in range(n):
        a = history_a(rng)
        b = G.program(rng, reset=True) + ["B", "B"]
        g["encoder-reuse"].append("EREUSE " + " ".join(a) + " | " + " ".join(b))
        rc = R.rect(rng)
        g["renderer-reuse"].append("REUSE %d %d %d %d " % tuple(rc) + " ".join(render_a(rng)) + " | " + " ".join(render_b(rng)))
    # SetRasterizer again between two graphics: same size at another origin, or another size
    g["renderer-retarget"] = []
    # the second graphic has the same palette / a viewBox of the same size as the first
    g["renderer-same-metadata"] = []
    # two zero-value Encoders one after the other: what the first did (Bytes, getters, a later Reset with other metadata) does not reach the second
    g["encoder-sharing"] = []
    for _ in range(n // 6):
        rc = R.rect(rng)
        k = rng.below(3)
        rc2 = [rc[0] + rng.range(1, 60), rc[1] + rng.range(-30, 30), rc[2], rc[3]] if k == 0 else \
              [rc[0], rc[1] + rng.range(1, 90), rc[2], rc[3]] if k == 1 else R.rect(rng)
        g["renderer-retarget"].append("REUSE %d %d %d %d " % tuple(rc) + " ".join(render_a(rng)) + " | SR %d %d %d %d " % tuple(rc2) + " ".join(render_b(rng)))
        # same palette, registers dirtied by A, B reads the initial registers
        pal = ",".join("%d:%s" % (i, G.rpremul(rng)) for i in sorted(set([0, 1, 63, rng.below(64)])))
        vb = R.viewbox(rng)
        f = [C.bits_f32(int(x, 16)) for x in vb]
        dx, dy = rng.range(-40, 40) / 2.0, rng.range(-40, 40) / 2.0
        vb2 = rng.choice([vb, [C.fh(f[0] + dx), C.fh(f[1] + dy), C.fh(f[2] + dx), C.fh(f[3] + dy)], R.viewbox(rng),
                          # a viewBox of zero width / height (the decoder accepts it): the scale of that axis is infinite
                          [vb[0], vb[1], vb[0], vb[3]], [vb[0], vb[1], vb[2], vb[1]]])
        a = ["R"] + vb + [pal]
        for i in (0, 1, 63):
            a += ["CS", str(i), "CR", "0", "0", "#" + G.rpremul(rng)]
        a += R.path(rng, n=2)
        b = ["R"] + vb2 + [pal]
        for adj in (0, 1):
            b += R.path(rng, n=2, adj=adj)
        g["renderer-same-metadata"].append("REUSE %d %d %d %d " % tuple(rc) + " ".join(a) + " | " + " ".join(b))
        # encoder sharing
        first = rng.choice([["B"], ["rc", "B"], ["rl"], ["CS", "3", "B"], []])
        if rng.below(3):
            first += ["R"] + G.rviewbox(rng) + [G.rpalette(rng, default_ok=False)] + (["B"] if rng.below(2) else [])
        second = G.program(rng, reset=(rng.below(3) == 0)) + ["B"]
        g["encoder-sharing"].append("ESHARE " + " ".join(first) + " | " + " ".join(second))
        # the bundled rasteriser wrapper: an earlier graphic drawn into an empty rectangle consumes the one-shot operator
        if rng.below(4) == 0:
            from . import c16
            a6, b6 = c16.Script(rng, gradients=False).tokens(), c16.Script(rng, gradients=False).tokens()
            b6 = b6[:6] + ["CS", "0", "CR", "0", "0", "#" + rng.choice(["80000080", "40404040", "00008080"])] + b6[6:]
            g.setdefault("rasteriser-operator-reuse", []).append("PIXOP rgba 24 33 SR 0 0 0 0 %s SR 0 0 24 33 %s" % (" ".join(a6), " ".join(b6)))
    return g


def project(case, out):
    return out


def nontrivial(case, out):
    return "B=8" in out or " d " in out or "paths=" in out


def always_check(case, io):
    if io.startswith(("PANIC", "CRASH", "MISSING")):
        return True, io[:200]
    if case.startswith("PIXOP"):
        if "WRONG" in io:
            return True, "the rasteriser wrapper's one-shot operator leaked from an earlier (empty-rectangle) Draw into a later graphic"
        return False, ""
    if case.startswith("ESHARE"):
        if io.endswith("A-CHANGED"):
            return True, "an Encoder's bytes changed because another Encoder was used"
        return False, ""
    a, _, b = io.partition(" || ")
    if a != b:
        return True, "the reused object's output differs from a fresh object's"
    if case.startswith("EREUSE"):
        bs = [x for x in a.split() if x.startswith("B=")]
        if len(bs) >= 2 and bs[-1] != bs[-2]:
            return True, "Bytes called twice returned different results"
    return False, ""


def oracle(case, io, mo):
    return True, "output after reuse differs from the model (proved independent of the history before Reset)"

"""C17 — Encoders and Renderers carry no state across Reset; output is deterministic."""
from .. import common as C
from .. import gen as G
from .. import rgen as R
from . import c10

PID = "C17"
RULE = ("pairs (A, B): A drawn from well-formed, erroneous (protocol violations) and truncated (mid-path, pending runs, hi-res on, dirtied registers / selectors "
        "/ LOD / smooth-curve state, disabled paths, gradient paints) histories, B a well-formed program starting with Reset. Encoder: A then B on one Encoder "
        "vs B on a fresh one (Bytes twice). Renderer: A then B on one Renderer and rasteriser vs B on fresh objects. "
        "Non-trivial: B produced bytes / a Draw; distinct by text.")
ASSUMPTIONS = []


def history_a(rng):
    t = []
    k = rng.below(6)
    if k == 0:
        return G.program(rng)
    words = [rng.choice(c10.ALPHA) for _ in range(rng.range(1, 12))]
    t = c10.instantiate(rng, words)
    t = [x for x in t if x != "B" or rng.below(3) == 0]
    if rng.below(2):
        t += ["H1"]
    if rng.below(2):   # leave a path open with a pending run
        t += ["SP", "0", G.fl(rng), G.fl(rng)] + G.draw_op(rng, "L") + G.draw_op(rng, "L")
    return t


def render_a(rng):
    t = []
    if rng.below(4):
        t += ["R"] + R.viewbox(rng) + [G.rpalette(rng)]
    for _ in range(rng.range(0, 3)):
        t += ["NS", str(rng.below(64)), "CS", str(rng.below(64)), "LOD", C.fh(float(rng.choice([0, 10, 1000]))), C.fh(float(rng.choice([5, 100, 1e9])))]
        for _ in range(rng.range(0, 4)):
            t += ["CR", str(rng.below(7)), "0", G.rcolor(rng), "NR", str(rng.below(7)), str(rng.below(2)) if False else "0", R.mf(rng)]
        if rng.below(2):
            t += R.gradient_regs(rng, 10, 10, R.good_stops(rng, rng.range(2, 4)), rng.below(2), rng.below(4), sel=0)
        p = R.path(rng, n=rng.range(1, 5), arcs=True)
        if rng.below(3) == 0:
            p = p[:-1]       # left open
        t += p
    return t


def render_b(rng):
    t = ["R"] + R.viewbox(rng) + [G.rpalette(rng)]
    for _ in range(rng.range(1, 3)):
        if rng.below(2):
            # relies on selectors / registers starting from zero
            t += ["NR", "0", "1", R.mf(rng), "CR", "0", "1", "#" + G.rpremul(rng)]
        if rng.below(3) == 0:
            t += R.gradient_regs(rng, 10, 10, R.good_stops(rng, 2), 0, 1, sel=None)
            t = t[:-6] + ["CS", "3", "CR", "0", "0", t[-1]]
            t += ["SP", "0", R.mf(rng), R.mf(rng)] + R.draw(rng, rng.choice("TtSs")) + R.draw(rng, "L") + ["Z"]
        else:
            t += ["SP", str(rng.below(2)), R.mf(rng), R.mf(rng)] + R.draw(rng, rng.choice("TtSs")) + R.draw(rng, rng.choice(R.NONARC)) + ["Z"]
    return t


def generate(rng, tier):
    g = {"encoder-reuse": [], "renderer-reuse": []}
    n = 6000 if tier == "quick" else 200000
    for _ in range(n):
        a = history_a(rng)
        b = G.program(rng, reset=True) + ["B", "B"]
        g["encoder-reuse"].append("EREUSE " + " ".join(a) + " | " + " ".join(b))
        rc = R.rect(rng)
        g["renderer-reuse"].append("REUSE %d %d %d %d " % tuple(rc) + " ".join(render_a(rng)) + " | " + " ".join(render_b(rng)))
    return g


def project(case, out):
    return out


def nontrivial(case, out):
    return "B=8" in out or " d " in out


def always_check(case, io):
    if io.startswith(("PANIC", "CRASH", "MISSING")):
        return True, io[:200]
    a, _, b = io.partition(" || ")
    if a != b:
        return True, "the reused object's output differs from a fresh object's"
    if case.startswith("EREUSE"):
        bs = [x for x in a.split() if x.startswith("B=")]
        if len(bs) >= 2 and bs[-1] != bs[-2]:
            return True, "Bytes called twice returned different results"
    return False, ""


def oracle(case, io, mo):
    return True, "output after reuse differs from the model (proved independent of the history before Reset)"

"""C18 — independent decodes, renders and encodes are safe to run concurrently (partial)."""
import os
import subprocess
from .. import common as C
from .. import gen as G
from .. import rgen as R

PID = "C18"
RULE = ("a script of independent pipelines (Decode into a recorder / Renderer / Encoder, Disassemble, DecodeViewBox, zero-value and reset Encoders, "
        "generator helpers into Encoder and Renderer, colour and viewBox helpers) is first run serially against the model, then executed from 16 goroutines "
        "(each in its own shuffled order, repeated) by a -race build with the input byte slices shared between goroutines; every concurrent result is compared "
        "with the serial one and shared inputs are compared before/after. Non-trivial: a case whose serial result is not an error; distinct by text.")
ASSUMPTIONS = ["the Go race detector reports the races that occur in the executions run; it does not enumerate interleavings",
               "the footprint analysis (harness/footprint.go) sees direct, indexed, field, pointer-method, append and aliasing writes to package-level variables; reflection/unsafe are rejected as imports"]
TRUSTED = ["harness/footprint.go (go/types based write-footprint extractor) and harness/race.go"]

_script = []


def generate(rng, tier):
    g = {"decode": [], "render": [], "encode": [], "generator": [], "helpers": []}
    n = 60 if tier == "quick" else 600
    streams = [G.stream(rng, True) for _ in range(n)]
    for s in streams:
        g["decode"] += ["DEC " + s, "DIS " + s, "DVB " + s, "TR 1 0 " + s]
        g["render"].append("DREN 0 0 24 24 " + s)
    # Bytes called while a run of drawing operations is pending, then more drawing: the bytes handed out stay as they were
    # (the harness compares every returned slice with a copy taken at the time, at the end of the history)
    g["bytes-mid-path"] = []
    for _ in range(n * 3):
        t = ["R"] + G.rviewbox(rng) + [G.rpalette(rng)] + ["SP", "0", G.fl(rng), G.fl(rng)]
        v = rng.choice(list("LlTtQq"))
        for _ in range(rng.range(1, 5)):
            t += G.draw_op(rng, v)
        t += ["B"]
        for _ in range(rng.range(1, 5)):
            t += G.draw_op(rng, v)
        t += ["B", "Z", "B"]
        g["bytes-mid-path"].append("ENC " + " ".join(t))
    for _ in range(n):
        # zero-value Encoders with very short outputs, and reset ones
        g["encode"].append("ENC " + " ".join(G.styling_op(rng) + ["B"]))
        g["encode"].append("ENC CS %d B" % rng.below(64))
        g["encode"].append("ED " + " ".join(G.program(rng)))
        vb = R.viewbox(rng)
        t = ["R"] + vb + ["-"] + R.gradient_regs(rng, 10, 10, R.good_stops(rng, rng.range(2, 5)), rng.below(2), rng.below(4), sel=0) + R.full_rect_path(vb)
        g["render"].append("REN 0 0 16 16 " + " ".join(t))
        g["render"].append("GRAD 0 0 16 16 3 1,1 5,9 15,0 " + " ".join(t))
        from . import c07
        g["generator"].append("PIPE 0 0 32 32 " + " ".join(c07.sequence(rng, True)))
        g["helpers"].append("RS b%02x%02x%02x 0:11223344 5:55667788" % (rng.below(256), rng.below(256), rng.below(256)))
        g["helpers"].append("C1 %d" % rng.below(256))
        g["helpers"].append("FIT meet c2000000 c2000000 42000000 42800000 %s %s 3f000000 3f000000" % (C.fh(float(rng.range(1, 300))), C.fh(float(rng.range(1, 300)))))
    del _script[:]
    for v in g.values():
        _script.extend(v)
    return g


def project(case, out):
    return out


def nontrivial(case, out):
    return not out.startswith(("ERR", "PANIC"))


def oracle(case, io, mo):
    return True, "serial result differs from the model"


def extra_phase(rng, tier, known):
    """-race build + concurrent run"""
    exe = os.path.join(C.BUILD, "harness_race")
    env = dict(C.GOENV, CGO_ENABLED="1")
    p = subprocess.run(["go", "build", "-race", "-tags", "verif", "-o", exe, "."], cwd=os.path.join(C.VERIF, "harness"),
                       env=env, stdout=subprocess.PIPE, stderr=subprocess.STDOUT, text=True, timeout=900)
    if p.returncode != 0:
        return [("(race build)", p.stdout[-500:], "", "the -race build of the harness failed", False)], {}
    lines = "\n".join("%d %s" % (i, c) for i, c in enumerate(_script)) + "\n"
    reps = 3 if tier == "quick" else 20
    renv = dict(os.environ, GORACE="halt_on_error=1 exitcode=66")
    p = subprocess.run([exe, "-race-run", "16", str(reps), "1"], input=lines, env=renv,
                       stdout=subprocess.PIPE, stderr=subprocess.PIPE, text=True, timeout=3000)
    extra = dict(race_run=p.stdout.strip()[:300], race_exit=p.returncode)
    if p.returncode == 0 and p.stdout.startswith("ok"):
        return [], extra
    if p.returncode == 66 or "DATA RACE" in p.stderr:
        rep = p.stderr[p.stderr.find("WARNING: DATA RACE"):][:1500]
        return [("concurrent run of %d cases from 16 goroutines" % len(_script), "DATA RACE: " + " ".join(rep.split()), "no race",
                 "the race detector reported a data race between independent pipelines", True)], extra
    return [("concurrent run of %d cases from 16 goroutines" % len(_script), (p.stdout + p.stderr)[-600:], "ok",
             "a pipeline produced a different result when run concurrently", True)], extra

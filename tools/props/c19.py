"""C19 — generator gradient helpers realise the requested geometry and registers."""
from fractions import Fraction
from .. import common as C
from .. import gen as G
from .. import rgen as R

PID = "C19"
RULE = ("the four gradient helpers with geometries over 2^-6..2^8, all spreads, stop lists of length 0..300 (boundary lengths 57, 58, 59, 255, 256, 258, 300), "
        "prior selector states 0..63 reached by plain writes and by incrementing writes that wrap, into an Encoder and into a Renderer (PIPE); the rendered paint "
        "(GradientConfig) and, for short lists, Gradient.At at the geometry's defining points are observed through a full-rectangle path. "
        "Non-trivial: the helper succeeded and a gradient paint reached Draw; distinct by text.")
ASSUMPTIONS = []


def stops_tok(rng, n):
    offs = sorted(set(rng.below(100000) for _ in range(n * 2)))[:n]
    k = len(offs)
    if k < n:
        offs = list(range(n))
    out = [str(n)]
    for o in offs:
        out += [C.fh(o / 100000.0 if n <= 60 else o / 1000.0), G.rpremul(rng)]
    return out


def helper(rng, n):
    k = rng.below(4)
    sp = str(rng.below(4))
    f = lambda: C.fh(rng.range(-512, 512) / 8.0 * 2.0 ** rng.range(-3, 2))
    if k == 0:
        return ["LG", f(), f(), f(), f(), sp] + stops_tok(rng, n)
    if k == 1:
        return ["CG", f(), f(), f(), f(), sp] + stops_tok(rng, n)
    if k == 2:
        return ["EG", f(), f(), f(), f(), f(), f(), sp] + stops_tok(rng, n)
    return ["GG", str(rng.below(2)), sp] + [f() for _ in range(6)] + stops_tok(rng, n)


def prior(rng, sel, by_incr):
    if not by_incr:
        return ["CS", str(sel), "NS", str(rng.below(64))]
    start = (sel - rng.choice([1, 2, 12, 70])) % 64
    t = ["CS", str(start)]
    while start != sel:
        t += ["CR", "0", "1", "#102030ff"]
        start = (start + 1) % 64
    return t + ["NS", str(rng.choice([0, 9, 10, 11, 63]))]


def generate(rng, tier):
    g = {"selectors": [], "stop-counts": [], "random": []}
    vb = ["c2000000", "c2000000", "42000000", "42000000"]
    for sel in range(64):
        for by_incr in (False, True):
            for n in (0, 1, 2, 3, 54, 58):
                t = ["R"] + vb + ["-"] + prior(rng, sel, by_incr) + helper(rng, n) + ["rc", "rn"] + R.full_rect_path(vb)
                g["selectors"].append("PIPE 0 0 32 32 " + " ".join(t))
    for n in (0, 1, 2, 53, 54, 55, 56, 57, 58, 59, 60, 63, 64, 65, 255, 256, 257, 258, 300, 314, 315):
        for sel in (0, 9, 10, 63):
            t = ["R"] + vb + ["-", "CS", str(sel)] + helper(rng, n) + R.full_rect_path(vb)
            g["stop-counts"].append("PIPE 0 0 32 32 " + " ".join(t))
    # the same helper call again on the same Generator and destinations: after a Reset (a new graphic), and after the
    # registers it wrote were overwritten directly
    g["repeated-helper"] = []
    for i in range(200 if tier == "quick" else 4000):
        h = helper(rng, rng.choice([2, 3, 4]))
        first = ["R"] + vb + ["-"] + h + R.full_rect_path(vb)
        if i % 2 == 0:
            t = first + ["NEW", "R"] + vb + ["-"] + h + R.full_rect_path(vb)
        else:
            clobber = ["NS", "4"] + [x for _ in range(6) for x in ("NR", "0", "1", C.fh(rng.range(-8, 8) / 4.0))] + ["NS", "0"]
            t = first + clobber + h + R.full_rect_path(vb)
        g["repeated-helper"].append("PIPE 0 0 32 32 " + " ".join(t))
    # a path-data transform configured on the Generator does not concern the gradient helpers
    g["after-set-transform"] = []
    for _ in range(150 if tier == "quick" else 3000):
        tr = rng.choice(["T:%s,%s" % (C.fh(float(rng.range(-16, 16))), C.fh(float(rng.range(-16, 16)))),
                         "S:%s,%s" % (C.fh(rng.choice([0.5, 2.0, 3.0])), C.fh(rng.choice([0.5, 2.0, 3.0]))),
                         "T:%s,%s;S:%s,%s" % (C.fh(-16.0), C.fh(-16.0), C.fh(2.0), C.fh(2.0))])
        t = ["R"] + vb + ["-", "ST", tr] + helper(rng, rng.choice([2, 3])) + R.full_rect_path(vb)
        g["after-set-transform"].append("PIPE 0 0 32 32 " + " ".join(t))
    # through DestinationLogger (which forwards the selector getters), after incrementing register writes
    g["through-logger"] = []
    for sel in range(0, 64, 3):
        for n in (1, 2, 3):
            t = ["R"] + vb + ["-"] + prior(rng, sel, True) + helper(rng, n) + ["rc", "rn"] + R.full_rect_path(vb)
            g["through-logger"].append("PIPE 0 0 32 32 LOG " + " ".join(t))
    for _ in range(3000 if tier == "quick" else 100000):
        v = R.viewbox(rng)
        rc = R.rect(rng)
        t = ["R"] + v + [G.rpalette(rng)] + prior(rng, rng.below(64), rng.below(2) == 0) + helper(rng, rng.choice([2, 2, 3, 4, 7])) + R.full_rect_path(v)
        g["random"].append("PIPE %d %d %d %d " % tuple(rc) + " ".join(t))
    return g


def project(case, out):
    return out


def nontrivial(case, out):
    return "g=okr" in out and " G" in out


def always_check(case, io):
    if io.startswith(("PANIC", "CRASH", "MISSING")):
        return True, io[:200]
    toks = case.split()
    head = io.split(" | ")[0].rstrip(" |").split()
    # selectors before / after each helper must agree modulo 64; too many stops must be rejected
    obs = [o for o in head if "/" in o]
    pos = 0
    i = 5
    nact = 0
    # walk the case to find helpers and their position among actions
    from . import c07
    return c07.always_check(case, io)


def oracle(case, io, mo):
    return True, "calls written / errors / rendered gradient differ from the model"

"""C20 — SVG path-data front ends emit the path they were given, transformed."""
from .. import common as C
from .. import gen as G

PID = "C20"
RULE = ("grammar-directed path strings in each front end's dialect: every verb, 1..4 operand groups per verb (implicit repeats), numbers spelled as integers, "
        "decimals, leading-dot and signed forms, separators space / comma / none-before-sign-or-dot (generator) or spaces / sign (converter), sub-paths joined by z; "
        "x scale-and-translate transform lists (Translate, Scale, general matrices, concatenations of 1..3) for the generator, (size, offset, outSize) triples, opacity "
        "lists and circle lists for the converter; plus the path strings of the repository's own tests. Out-of-dialect strings only as a small malformed group "
        "(outcome class only). Observable: calls received by a recording Destination (float32 bits). Non-trivial: at least 3 calls; distinct by text.")
ASSUMPTIONS = ["strconv.ParseFloat and fmt.Fscanf(\"%f\") are correctly rounded (the model rounds the exact decimal rational itself)"]

ARITY = {"M": 2, "m": 2, "L": 2, "l": 2, "H": 1, "h": 1, "V": 1, "v": 1, "C": 6, "c": 6, "S": 4, "s": 4, "Q": 4, "q": 4, "T": 2, "t": 2, "A": 7, "a": 7}


def num(rng, flag=False, small=False):
    if flag:
        return rng.choice(["0", "1"])
    r = rng.below(10)
    sign = rng.choice(["", "", "-", "-", "+"])
    if r < 3:
        return sign + str(rng.below(49))
    if r < 6:
        return sign + "%d.%s" % (rng.below(49), rng.choice(["5", "25", "125", "75", "3", "07", "999", "0625"]))
    if r < 8:
        return sign + "." + rng.choice(["5", "25", "1", "33", "875", "05"])
    if r < 9:
        return sign + "%d.%d" % (rng.below(24), rng.below(100000))
    return sign + rng.choice(["0", "0.0", "24", "12.", "100000", "0.000001", "3.4028235", "16777217"])


def mdnum(rng):
    """a number of the converter's dialect: as num, or with a decimal exponent (fmt.Fscanf("%f") reads one)"""
    t = num(rng)
    if rng.below(5) == 0:
        t += rng.choice("eE") + rng.choice(["", "", "-", "-", "+"]) + str(rng.choice([0, 1, 1, 2, 3, 5, 9, 12, 20, rng.below(21)]))
    return t


def join_nums(rng, toks, commas=True):
    s = toks[0]
    for prev, t in zip(toks, toks[1:]):
        can_none = t[0] in "+-" or (t[0] == "." and "." in prev)
        r = rng.below(6)
        if can_none and r < 2:
            sep = ""
        elif commas and r < 4:
            sep = rng.choice([",", ", ", " ,"])
        else:
            sep = rng.choice([" ", " ", "  "])
        s += sep + t
    return s


def gen_string(rng, arcs=True):
    verbs = list("LlHhVvCcSsQqTt") + (["A", "a"] if arcs else [])
    s = ""
    nsub = rng.range(1, 3)
    for si in range(nsub):
        v = "M" if si == 0 and rng.below(4) else rng.choice("Mm")
        groups = rng.choice([1, 1, 1, 2, 3])
        toks = []
        for _ in range(groups):
            toks += [num(rng) for _ in range(2)]
        s += v + join_nums(rng, toks)
        for _ in range(rng.range(1, 5)):
            v = rng.choice(verbs)
            groups = rng.choice([1, 1, 2, 3, 4])
            toks = []
            for _ in range(groups):
                if v in "Aa":
                    toks += [num(rng), num(rng), num(rng), num(rng, True), num(rng, True), num(rng), num(rng)]
                else:
                    toks += [num(rng) for _ in range(ARITY[v])]
            s += rng.choice(["", "", " "]) + v + join_nums(rng, toks)
        s += "z"
    return s


def md_string(rng):
    verbs = list("LlHhVvCcSsQqTt")
    s = ""
    nsub = rng.range(1, 3)
    for si in range(nsub):
        v = "M" if si == 0 else rng.choice("Mm")
        s += v + rng.choice(["", " "]) + join_nums(rng, [mdnum(rng), mdnum(rng)], commas=False)
        for _ in range(rng.range(1, 5)):
            v = rng.choice(verbs)
            groups = rng.choice([1, 1, 2, 3])
            toks = []
            for _ in range(groups):
                toks += [mdnum(rng) for _ in range(ARITY[v])]
            s += rng.choice(["", "", " "]) + v + rng.choice(["", "", " "]) + join_nums(rng, toks, commas=False)
        if si < nsub - 1 or rng.below(2):
            s += rng.choice(["z", "z", "Z"]) if si < nsub - 1 else "z"
    return s


def hx(s):
    return s.encode().hex()


def transform(rng):
    if rng.below(5) == 0:
        return "-"
    parts = []
    for _ in range(rng.range(1, 3)):
        r = rng.below(3)
        f = lambda: C.fh(rng.choice([0.5, 1, 2, 3, -1, 0.25, 4, 1.5, rng.range(-64, 64) / 8.0]))
        if r == 0:
            parts.append("T:%s,%s" % (f(), f()))
        elif r == 1:
            parts.append("S:%s,%s" % (f(), f()))
        else:
            parts.append("M:%s,%s,%s,%s,%s,%s" % (f(), C.fh(0.0), f(), C.fh(0.0), f(), f()))
    return ";".join(parts)


CORPUS_GEN = [
    "M-16-16L16-16L16,16L-16,16z",
    "M 4,4 l 8,0 0,8 -8,0 z".replace(" ", "").replace("M", "M").replace("l", "l"),
]


def generate(rng, tier):
    g = {"generator-verbs": [], "generator-random": [], "converter-random": [], "converter-paths": [], "malformed": []}
    # one string per verb x {explicit, implicit repeat} x spellings
    for v in "LlHhVvCcSsQqTtAa":
        for reps in (1, 2, 3):
            for _ in range(6):
                toks = []
                for _ in range(reps):
                    if v in "Aa":
                        toks += [num(rng), num(rng), num(rng), num(rng, True), num(rng, True), num(rng), num(rng)]
                    else:
                        toks += [num(rng) for _ in range(ARITY[v])]
                s = "M" + join_nums(rng, [num(rng), num(rng)]) + v + join_nums(rng, toks) + "z"
                g["generator-verbs"].append("SPD %d %s %s" % (rng.below(7), transform(rng), hx(s)))
    n = 8000 if tier == "quick" else 200000
    for _ in range(n):
        g["generator-random"].append("SPD %d %s %s" % (rng.below(7), transform(rng), hx(gen_string(rng))))
        if rng.below(4) == 0:
            # SetTransform called more than once (the last call is in force; no arguments = identity)
            hist = "/".join([transform(rng) for _ in range(rng.range(1, 2))] + [rng.choice(["-", "-", transform(rng)])])
            g.setdefault("generator-transform-history", []).append("SPD %d %s %s" % (rng.below(7), hist, hx(gen_string(rng))))
    for _ in range(n):
        size = C.fh(float(rng.choice([24, 48, 20, 18])))
        ox, oy = C.fh(rng.choice([0.0, 1.0, -2.0, 0.5])), C.fh(rng.choice([0.0, 3.0, -1.0]))
        out = C.fh(float(rng.choice([48, 64, 24])))
        paths = []
        for _ in range(rng.range(1, 4)):
            op = rng.choice(["-", "-", C.fh(0.5), C.fh(0.25), C.fh(0.5), C.fh(0.75), C.fh(1.0), C.fh(0.3)])
            circles = "-"
            if rng.below(4) == 0:
                circles = ";".join("%s,%s,%s" % (C.fh(float(rng.range(2, 22))), C.fh(float(rng.range(2, 22))), C.fh(rng.range(1, 16) / 2.0)) for _ in range(rng.range(1, 2)))
            d = hx(md_string(rng)) if (rng.below(8) or circles == "-") else "-"
            paths += ["P", op, d, circles]
        g["converter-random"].append("MDP %s %s %s %s %s" % (size, ox, oy, out, " ".join(paths)))
    # many paths with many distinct opacities in one icon: one register per distinct opacity, reused afterwards
    g["converter-many-opacities"] = []
    for _ in range(n // 20):
        pool = [C.fh(x) for x in (0.1, 0.2, 0.3, 0.4, 0.5, 0.6, 0.7, 0.8)]
        k = rng.range(3, 8)
        ops = pool[:k] if rng.below(2) else [rng.choice(pool) for _ in range(k)]
        ops += [rng.choice(ops) for _ in range(rng.range(1, 3))] + rng.choice([[], ["-"], [C.fh(1.0)]])
        paths = []
        for op in ops:
            paths += ["P", op, hx(md_string(rng)), "-"]
        g["converter-many-opacities"].append("MDP %s %s %s %s %s" % (C.fh(24.0), C.fh(0.0), C.fh(0.0), C.fh(48.0), " ".join(paths)))
    for s in ("M20 4H4c-1.1 0-2 .9-2 2v12c0 1.1.9 2 2 2h16c1.1 0 2-.9 2-2V6c0-1.1-.9-2-2-2zm0 14H4V8l8 5 8-5v10zm-8-7L4 6h16l-8 5z",
              "M12 2C6.48 2 2 6.48 2 12s4.48 10 10 10 10-4.48 10-10S17.52 2 12 2zm1 15h-2v-6h2v6zm0-8h-2V7h2v2z",
              "M16 34h22v4H16z", "M6 19c0 1.1.9 2 2 2h8c1.1 0 2-.9 2-2V7H6v12zM19 4h-3.5l-1-1h-5l-1 1H5v2h14V4z"):
        for size, out in ((24, 48), (48, 48)):
            g["converter-paths"].append("MDP %s %s %s %s P - %s -" % (C.fh(float(size)), C.fh(0.0), C.fh(0.0), C.fh(float(out)), hx(s)))
            g["generator-verbs"].append("SPD 0 S:40000000,40000000;T:c2000000,c2000000 %s" % hx(s if s.endswith("z") else s + "z"))
    # out of dialect (outcome class only): unknown verbs, bad numbers
    for s in ("X1 2z", "M1 2Lx 3z", "M1 2L-z", "M1 2L+ 3z", "1 2z", "M1 2 K3 4z"):
        g["malformed"].append("SPD 0 - " + hx(s))
    return g


def project(case, out):
    if case.split()[-1] in tuple(hx(s) for s in ("X1 2z", "M1 2Lx 3z", "M1 2L-z", "M1 2L+ 3z", "1 2z", "M1 2 K3 4z")):
        return out.split(" | ")[0][:3]
    return out


def nontrivial(case, out):
    return out.count(" ") > 8


def always_check(case, io):
    if io.startswith(("CRASH", "MISSING", "TIMEOUT")):
        return True, io[:200]
    if case.startswith("SPD") and io.startswith("OK"):
        t = io.split(" | ")[1].split()
        if t.count("Z") != 1 or t[-1] != "Z" or t[0] != "SP":
            return True, "the path is not started once and ended exactly once"
    return False, ""


def oracle(case, io, mo):
    return True, "operations emitted differ from the model of the path-data front end"

"""Generators for renderer-side properties: moderate geometry, register traffic, gradients."""
from . import common as C
from . import gen as G


def mf(rng):
    """moderate finite float32 (as hex bits)"""
    r = rng.below(10)
    if r < 4:
        return C.fh(float(rng.range(-40, 40)))
    if r < 7:
        return C.fh(rng.range(-4000, 4000) / 64.0)
    if r < 9:
        return C.fh((rng.below(1 << 20) / float(1 << 20) - 0.5) * 100)
    return C.fh(rng.choice([0.0, -0.0, 0.5, 1.0, -1.0, 31.5, 32.0, -32.0, 1e-3]))


def viewbox(rng):
    r = rng.below(5)
    if r == 0:
        return ["c2000000", "c2000000", "42000000", "42000000"]
    if r == 1:
        return [C.fh(0.0), C.fh(0.0), C.fh(float(rng.choice([16, 24, 48, 100]))), C.fh(float(rng.choice([16, 24, 48, 100])))]
    x0 = rng.range(-100, 100) / 2.0
    y0 = rng.range(-100, 100) / 2.0
    return [C.fh(x0), C.fh(y0), C.fh(x0 + rng.range(1, 200) / 2.0), C.fh(y0 + rng.range(1, 200) / 2.0)]


def rect(rng):
    r = rng.below(4)
    if r == 0:
        n = rng.choice([1, 7, 24, 48, 64, 200, 520])
        return [0, 0, n, n]
    return [rng.range(-20, 50), rng.range(-20, 50), rng.range(1, 300), rng.range(1, 300)]


NONARC = list("LlTtQqSsCcHhVvYy")


def draw(rng, v):
    if v in ("A", "a"):
        return [v, C.fh(rng.range(1, 400) / 8.0), C.fh(rng.range(1, 400) / 8.0), C.fh(rng.choice([0, 1, 2, 3, 5, 6, 9, 12, 18, 23, rng.below(240) / 10.0]) / 24.0),
                str(rng.below(4)), mf(rng), mf(rng)]
    return [v] + [mf(rng) for _ in range(G.VERBS[v])]


def path(rng, verbs=None, n=None, adj=0, arcs=False):
    t = ["SP", str(adj), mf(rng), mf(rng)]
    pool = verbs or (NONARC + (["A", "a"] if arcs else []))
    for _ in range(n if n is not None else rng.range(1, 8)):
        t += draw(rng, rng.choice(pool))
    return t + ["Z"]


def reset(rng, pal=None):
    return ["R"] + viewbox(rng) + [pal if pal is not None else "-"]


def gradient_regs(rng, cbase, nbase, stops, shape, spread, mat=None, sel=None, nstops_field=None):
    """register writes that set up a gradient; stops = [(offset_hex, rgba_hex)]; returns tokens and leaves CSEL=sel"""
    t = ["NS", str((nbase - 6) % 64)]
    mat = mat or [C.fh(x) for x in (rng.range(1, 64) / 64.0, rng.range(-32, 32) / 64.0, rng.range(-64, 64) / 16.0,
                                     rng.range(-32, 32) / 64.0, rng.range(1, 64) / 64.0, rng.range(-64, 64) / 16.0)]
    for m in mat:
        t += ["NR", "0", "1", m]
    for off, _ in stops:
        t += ["NR", "0", "1", off]
    t += ["CS", str(cbase % 64)]
    for _, col in stops:
        t += ["CR", "0", "1", "#" + col]
    sel = rng.below(64) if sel is None else sel
    n = len(stops) if nstops_field is None else nstops_field
    g = "%02x%02x%02x00" % (n & 0x3f, (cbase & 0x3f) | (spread << 6), (nbase & 0x3f) | ((2 | shape) << 6))
    t += ["CS", str(sel), "CR", "0", "0", "#" + g]
    return t


def good_stops(rng, n):
    offs = sorted(set(rng.below(1025) for _ in range(n * 3)))[:n]
    while len(offs) < n:
        offs = sorted(set(offs + [rng.below(1025)]))
    if n and rng.below(2):
        offs[0] = 0
    if n > 1 and rng.below(2):
        offs[-1] = 1024
    return [(C.fh(o / 1024.0), G.rpremul(rng)) for o in offs]


def full_rect_path(vb):
    return ["SP", "0", vb[0], vb[1], "L", vb[2], vb[1], "L", vb[2], vb[3], "L", vb[0], vb[3], "Z"]

#!/bin/sh
# runs every property's check at the given tier (default quick); first one builds, the rest reuse the build
cd "$(dirname "$0")/.." || exit 2
tier=${1:-quick}; rc=0; first=1
for p in $(python3 -c "import json;print(' '.join(json.loads(l)['id'] for l in open('properties.jsonl')))"); do
  if [ $first = 1 ]; then ./check $p --tier $tier || rc=1; first=0; else ./check $p --tier $tier --no-build || rc=1; fi
done
exit $rc

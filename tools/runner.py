"""Generic check runner: build, proof audit, correspondence, classification, evidence."""
import importlib
import json
import os
import sys
import time

from . import common as C


def _write_evidence(pid, ev):
    os.makedirs(os.path.join(C.VERIF, "evidence"), exist_ok=True)
    with open(os.path.join(C.VERIF, "evidence", pid + ".json"), "w") as f:
        json.dump(ev, f, indent=1, sort_keys=True)


def _replay_path(pid, tag):
    d = os.path.join(C.BUILD, "replay")
    os.makedirs(d, exist_ok=True)
    return os.path.join(d, "%s_%s.json" % (pid, tag))


def load_prop(pid):
    return importlib.import_module("tools.props." + pid.lower())


def run_cases(cases):
    """cases: list of 'KIND args' strings.  Returns (impl_out, model_out) lists aligned with cases."""
    lines = ["%d %s" % (i, c) for i, c in enumerate(cases)]
    io = C.run_impl(lines)
    mo = C.run_model(lines)
    return ([io.get(str(i), "MISSING") for i in range(len(cases))],
            [mo.get(str(i), "MISSING") for i in range(len(cases))])


def trusted_base(mod):
    tb = [
        "Coq 8.16.1 kernel (coqc; vm_compute used, native_compute not used)",
        "coq/model/SF.v as the definition of IEEE-754 binary32/binary64 round-to-nearest-even arithmetic",
        "extraction to OCaml with ExtrOcamlBasic only (no Extract Constant of ours; Z/N/positive kept as Coq datatypes), ocamlfind ocamlopt 4.13.1, ocaml/driver.ml + util.ml",
        "Go harness (harness/*.go, build tag verif), tools/*.py generators and comparison",
        "hand-written model tied to /repo by the correspondence check and by coq/gen/Tables.v regenerated from /repo on every run",
    ]
    tb += getattr(mod, "TRUSTED", [])
    return tb


def main(argv):
    import argparse
    ap = argparse.ArgumentParser()
    ap.add_argument("pid", nargs="?")
    ap.add_argument("--tier", default=os.environ.get("VERIF_TIER", "quick"))
    ap.add_argument("--replay")
    ap.add_argument("--setup", action="store_true")
    ap.add_argument("--no-build", action="store_true")
    a = ap.parse_args(argv)
    if a.setup:
        try:
            C.setup_all()
        except C.BuildError as e:
            print("SETUP FAILED at %s\n%s" % (e.stage, e.output))
            return 2
        print("setup ok")
        return 0
    pid = a.pid
    tier = a.tier if a.tier in ("quick", "thorough") else "quick"
    seed = int(os.environ.get("VERIF_SEED", "1"))
    mod = load_prop(pid)
    t0 = time.time()
    broken = []      # broken proof obligations / build problems (strings)
    build_problem = None
    audit = dict(theorems=[], axioms={}, ok=False, problems=[])
    with C.Lock():
        try:
            C.build_harness()
        except C.BuildError as e:
            # the repository does not build with the hooks: nothing can be checked
            print("harness build failed:\n" + e.output[-3000:])
            rp = _replay_path(pid, "build")
            json.dump(dict(property=pid, broken="go build of /repo with -tags verif failed", output=e.output[-3000:]),
                      open(rp, "w"), indent=1)
            print("VIOLATION property=%s replay=%s no-failing-input-found" % (pid, rp))
            return 1
        if not a.no_build:
            try:
                C.gen_tables()
                C.build_coq()
            except C.BuildError as e:
                # a file of the development no longer checks.  It concerns this property only if props/<pid>.v
                # (re-compiled by the audit below against the .vo files, whose digests Coq verifies) depends on it.
                build_problem = "coq build: %s failed: %s" % (e.stage, (e.failed_file or ""))
                C.log(e.output[-3000:])
            try:
                C.build_driver()
            except C.BuildError as e:
                broken.append("model driver build failed at %s" % e.stage)
                C.log(e.output[-3000:])
        if not a.replay:
            audit = C.audit_props(pid)
            if not audit["ok"]:
                broken += audit["problems"]
                if build_problem:
                    broken.append(build_problem)
            elif build_problem:
                C.log("note: %s -- not among the dependencies of props/%s.v, which checks" % (build_problem, pid))
            hits = C.forbidden_scan()
            if hits:
                broken.append("forbidden declarations in the development: %s" % hits[:5])

    known = C.load_known()
    rng = C.Rng(seed)

    if a.replay:
        rp = json.load(open(a.replay))
        cases = [rp["case"]] if "case" in rp else []
        if not cases:
            print("replay file names a broken obligation, not an input: %s" % rp.get("broken"))
            return 1
        groups = {"replay": cases}
    else:
        groups = mod.generate(rng, tier)   # dict label -> list of case strings

    cases, labels = [], []
    # corpus first
    corp = os.path.join(C.VERIF, "corpus", pid + ".txt")
    if os.path.exists(corp) and not a.replay:
        for line in open(corp):
            line = line.strip()
            if line and not line.startswith("#"):
                cases.append(line)
                labels.append("corpus")
    for lab, cs in groups.items():
        for c in cs:
            cases.append(c)
            labels.append(lab)

    impl, model = run_cases(cases) if cases else ([], [])
    violations = []   # (case, impl, model, msg, concrete)
    known_hits = {}
    disagreements = 0
    nontrivial = set()
    dist = {}
    for c, lab, io, mo in zip(cases, labels, impl, model):
        dist[lab] = dist.get(lab, 0) + 1
        if mod.nontrivial(c, io):
            nontrivial.add(c)
        pi, pm = mod.project(c, io), mod.project(c, mo)
        bad = None
        if pi != pm:
            disagreements += 1
            v, msg = mod.oracle(c, io, mo)
            bad = (c, io, mo, msg, v)
        elif hasattr(mod, "always_check"):
            v, msg = mod.always_check(c, io)
            if v:
                bad = (c, io, mo, msg, True)
        if bad:
            k = C.match_known(pid, c + " => " + io, known)
            if k:
                known_hits.setdefault(k["what"], 0)
                known_hits[k["what"]] += 1
            else:
                violations.append(bad)

    # extra property-specific phases (e.g. sequence shrinking, metamorphic runs)
    extra = {}
    if hasattr(mod, "extra_phase") and not a.replay:
        ex_viol, extra = mod.extra_phase(rng, tier, known)
        violations += ex_viol

    wall = time.time() - t0
    ntheorems = len(audit["theorems"])
    discharged = ntheorems if audit["ok"] else sum(
        1 for t in audit["theorems"] if t in audit["axioms"] and
        all(x in C.ALLOWED_AXIOMS for x in audit["axioms"][t]))
    samples = []
    seen_lab = set()
    for c, lab, io in zip(cases, labels, impl):
        if lab not in seen_lab:
            seen_lab.add(lab)
            samples.append(dict(group=lab, case=c, implementation=io))
    ev = dict(
        property_id=pid, tier=tier, seed=seed, level="proof",
        wall_s=round(wall, 2),
        violations=len(violations) + (1 if broken and not violations else 0),
        coverage=dict(
            obligations=max(ntheorems, 1),
            discharged=discharged,
            checker_cmd="cd /verif/coq && make (coqc full .vo build) ; coqc -R /verif/coq IVG props/%s.v" % pid,
            trusted_base=trusted_base(mod),
            theorems=audit["theorems"],
            axioms_per_theorem=audit["axioms"],
            programs=len(cases),
            evaluations=len(cases),
            disagreements_checked=disagreements,
            distinct_nontrivial=len(nontrivial),
            rule=getattr(mod, "RULE", ""),
            distribution=dist,
            samples=samples[:12],
            known_findings_seen=known_hits,
            broken_obligations=broken,
            **extra,
        ),
        assumptions=getattr(mod, "ASSUMPTIONS", []),
    )
    if not a.replay:
        _write_evidence(pid, ev)

    for what, n in known_hits.items():
        print("KNOWN-FINDING: property=%s %s (%d cases)" % (pid, what, n))

    rc = 0
    if violations:
        # report the smallest concrete one first
        violations.sort(key=lambda v: (not v[4], len(v[0])))
        c, io, mo, msg, concrete = violations[0]
        rp = _replay_path(pid, "seed%d" % seed)
        json.dump(dict(property=pid, case=c, implementation=io, model=mo, explanation=msg,
                       concrete_failing_input=bool(concrete),
                       broken_correspondence=None if concrete else
                       "model/implementation disagree on this case but the property predicate holds on the implementation's output",
                       other_violations=len(violations) - 1, broken_obligations=broken),
                  open(rp, "w"), indent=1)
        print("case: %s\n implementation: %s\n model:          %s\n %s" % (c, io[:400], mo[:400], msg))
        print("VIOLATION property=%s replay=%s%s" % (pid, rp, "" if concrete else " no-failing-input-found"))
        rc = 1
    elif broken:
        rp = _replay_path(pid, "obligation")
        json.dump(dict(property=pid, broken=broken,
                       note="no input on which the implementation violates the property was found by the correspondence run (%d cases)" % len(cases)),
                  open(rp, "w"), indent=1)
        for b in broken:
            print("broken: " + b[:2000])
        print("VIOLATION property=%s replay=%s no-failing-input-found" % (pid, rp))
        rc = 1
    else:
        print("%s ok: %d theorems checked, %d cases, %d disagreements, %.1fs" %
              (pid, ntheorems, len(cases), disagreements, wall))
    return rc

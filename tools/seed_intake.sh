#!/bin/bash
# usage: tools/seed_intake.sh <worktree> <seed-id> <demo test path relative to the worktree> <round>
# Takes a sub-agent's change from its scratch worktree: separates the source change from the demonstration, then
# confirms in that worktree that (1) the suite passes with the change, (2) the demonstration fails with it,
# (3) the demonstration passes without it.  Writes seeded/<id>/{patch.diff,demo_test.go.txt,round.txt}.
set -u
wt=$1; id=$2; demo=$3; rnd=$4
export GOFLAGS=-mod=mod GOPROXY=off GOSUMDB=off GOTOOLCHAIN=local
d=/verif/seeded/$id; mkdir -p $d
cp $wt/$demo $d/demo_test.go.txt
pkg=./$(dirname $demo)/
git -C $wt diff > $d/patch.diff
[ -s $d/patch.diff ] || { echo "INTAKE $id: empty patch"; exit 2; }
echo $rnd > $d/round.txt
cd $wt
mv $demo /tmp/intake_demo.$$
go build ./... && go test -vet=off -count=1 ./... > /tmp/intake_suite.$$ 2>&1; s=$?
mv /tmp/intake_demo.$$ $demo
go test -vet=off -count=1 $pkg > /tmp/intake_with.$$ 2>&1; w=$?
git apply -R $d/patch.diff
go test -vet=off -count=1 $pkg > /tmp/intake_without.$$ 2>&1; wo=$?
git apply $d/patch.diff
echo "INTAKE $id: suite-with-change rc=$s demo-with-change rc=$w (want !=0) demo-without rc=$wo (want 0)"
rm -f /tmp/intake_*.$$
[ $s = 0 ] && [ $w != 0 ] && [ $wo = 0 ]

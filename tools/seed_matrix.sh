#!/bin/bash
# For every seeded change: apply it to /repo's working tree, run the quick check of the property it was written
# against (plus any extra properties given in tools/seed_extra.txt as "<dir> <Cxx> ..."), record the verdict, revert.
# Output: docs/seed_matrix.txt   (lines: <dir> <property> caught|MISSED <first VIOLATION line>)
cd /verif
# the checks rewrite evidence/*.json: keep the clean-tree evidence and put it back afterwards
rm -rf build/evidence.keep; cp -r evidence build/evidence.keep
out=docs/seed_matrix.txt; : > $out
for d in seeded/C*-m*; do
  id=$(basename $d); p=${id%%-*}
  extra=$(grep "^$id " tools/seed_extra.txt 2>/dev/null | cut -d' ' -f2-)
  git -C /repo apply /verif/$d/patch.diff || { echo "$id $p patch-does-not-apply" >> $out; continue; }
  for q in $p $extra; do
    r=$(./check $q --tier quick 2>/dev/null | grep -E "^VIOLATION" | head -1)
    if [ -n "$r" ]; then echo "$id $q caught $r" >> $out; else echo "$id $q MISSED" >> $out; fi
  done
  git -C /repo checkout -- .
done
./check C08 --tier quick >/dev/null 2>&1
rm -rf evidence; mv build/evidence.keep evidence
echo done

#!/bin/bash
# like seed_matrix_new.sh, but the checks run with --no-build first (harness rebuilt from the patched tree, Coq
# development and generated files left as they are): the correspondence run alone.  A change missed that way is
# run again with the full build, so that the proof tie (gen/*.v regenerated, GenEq*.v re-checked) gets its turn.
cd /verif
rm -rf build/evidence.keep; cp -r evidence build/evidence.keep
out=docs/seed_matrix.txt
for id in $(cat $1); do
  d=seeded/$id; p=${id%%-*}
  extra=$(grep "^$id " tools/seed_extra.txt 2>/dev/null | cut -d' ' -f2-)
  grep -v "^$id " $out > $out.tmp; mv $out.tmp $out
  git -C /repo apply /verif/$d/patch.diff || { echo "$id $p patch-does-not-apply" >> $out; continue; }
  for q in $p $extra; do
    r=$(./check $q --tier quick --no-build 2>/dev/null | grep -E "^VIOLATION" | head -1)
    if [ -z "$r" ]; then r=$(./check $q --tier quick 2>/dev/null | grep -E "^VIOLATION" | head -1); fi
    if [ -n "$r" ]; then echo "$id $q caught $r" >> $out; else echo "$id $q MISSED" >> $out; fi
  done
  git -C /repo checkout -- .
done
sort -o $out $out
# bring the generated files and the build back to the clean tree
./check C18 --tier quick >/dev/null 2>&1
rm -rf evidence; mv build/evidence.keep evidence
echo done

#!/bin/bash
# like seed_matrix.sh but only for the ids listed in the file given as $1; appends to docs/seed_matrix.txt
cd /verif
# the checks rewrite evidence/*.json: keep the clean-tree evidence and put it back afterwards
rm -rf build/evidence.keep; cp -r evidence build/evidence.keep
out=docs/seed_matrix.txt
for id in $(cat $1); do
  d=seeded/$id; p=${id%%-*}
  extra=$(grep "^$id " tools/seed_extra.txt 2>/dev/null | cut -d' ' -f2-)
  grep -v "^$id " $out > $out.tmp; mv $out.tmp $out
  git -C /repo apply /verif/$d/patch.diff || { echo "$id $p patch-does-not-apply" >> $out; continue; }
  for q in $p $extra; do
    r=$(./check $q --tier quick 2>/dev/null | grep -E "^VIOLATION" | head -1)
    if [ -n "$r" ]; then echo "$id $q caught $r" >> $out; else echo "$id $q MISSED" >> $out; fi
  done
  git -C /repo checkout -- .
done
sort -o $out $out
rm -rf evidence; mv build/evidence.keep evidence
echo done

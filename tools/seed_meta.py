#!/usr/bin/env python3
"""Writes seeded/<id>/meta.json from notes.md + docs/seed_matrix.txt and refreshes the table in DESIGN.md."""
import json, os, re, glob
V = os.path.dirname(os.path.dirname(os.path.abspath(__file__)))
mat = {}
for l in open(V + '/docs/seed_matrix.txt'):
    p = l.split()
    if len(p) >= 3:
        mat.setdefault(p[0], [])
        if (p[1], p[2]) not in mat[p[0]]:
            mat[p[0]].append((p[1], p[2]))
rows = []
for d in sorted(glob.glob(V + '/seeded/C*-m*'), key=lambda x: (os.path.basename(x).split('-m')[0], int(os.path.basename(x).split('-m')[1]))):
    sid = os.path.basename(d); prop = sid.split('-')[0]
    notes = open(d + '/notes.md').read()
    title = notes.strip().split('\n')[0].lstrip('# ').strip()
    def field(name):
        m = re.search(r'^- %s:\s*(.*?)(?=^- |\Z)' % name, notes, re.M | re.S)
        return ' '.join(m.group(1).split()) if m else ''
    caught = [q for q, v in mat.get(sid, []) if v == 'caught']
    missed = [q for q, v in mat.get(sid, []) if v != 'caught' and q not in caught]
    rnd = int(open(d + '/round.txt').read()) if os.path.exists(d + '/round.txt') else (2 if int(sid.split('-m')[1]) >= 3 else 1)
    meta = dict(id=sid, property=prop, round=rnd, title=title, change=field('Change') or 'see notes.md', breaks=field('Breaks') or 'see notes.md',
                needs_to_manifest=field('Needs') or 'see notes.md',
                files=dict(patch='patch.diff', demonstration='demo_test.go.txt', notes='notes.md'),
                origin='fresh sub-agent given only the text of %s and a scratch git worktree of /repo (removed afterwards); compiles and passes `go test -vet=off -count=1 ./...`' % prop,
                what_was_run=['git -C /repo apply /verif/seeded/%s/patch.diff' % sid] + ['./check %s --tier quick' % q for q, _ in mat.get(sid, [])] + ['git -C /repo checkout -- .'],
                verified=['patch applies to a scratch worktree of /repo HEAD', 'go build ./... and the whole suite pass with the patch', 'the demonstration passes on the clean tree', 'the demonstration fails with the patch'],
                caught_by=caught, missed_by=missed,
                verdict=('reported as VIOLATION with a concrete replay input by ' + ', '.join(caught)) if caught else 'not caught')
    json.dump(meta, open(d + '/meta.json', 'w'), indent=1)
    rows.append((sid, title, caught))
tab = "| seeded change | what it does | caught by |\n|---|---|---|\n"
for sid, title, caught in rows:
    t = re.sub(r'^(mut|Mutation )\d+\s*[—:(-]*\s*', '', title)
    tab += "| %s | %s | %s |\n" % (sid, t.replace('|', '/')[:150], ', '.join(caught) or 'MISSED')
s = open(V + '/DESIGN.md').read()
a = s.index("| seeded change | what it does | caught by |")
b = s.index("\n---", a)
s = s[:a] + tab + s[b:]
open(V + '/DESIGN.md', 'w').write(s)
print(len(rows), "seeded changes;", sum(1 for r in rows if r[2]), "caught")

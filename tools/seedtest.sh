#!/bin/bash
# usage: tools/seedtest.sh <seeded-dir> <property>...   applies the patch to /repo, runs the checks, reverts
d=$1; shift
cd /verif
git -C /repo apply /verif/$d/patch.diff || { echo "patch does not apply"; exit 2; }
for p in "$@"; do
  echo "== $p on $(basename $d)"
  ./check $p --tier quick --no-build 2>/dev/null | tail -4
done
git -C /repo checkout -- .

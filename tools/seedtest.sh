#!/bin/bash
# usage: tools/seedtest.sh <seeded-dir> <property>...   applies the patch to /repo, runs the checks, reverts
d=$1; shift
cd /verif
# the checks rewrite evidence/*.json: keep the clean-tree evidence and put it back afterwards
rm -rf build/evidence.keep; cp -r evidence build/evidence.keep
git -C /repo apply /verif/$d/patch.diff || { echo "patch does not apply"; exit 2; }
for p in "$@"; do
  echo "== $p on $(basename $d)"
  ./check $p --tier quick --no-build 2>/dev/null | tail -4
done
git -C /repo checkout -- .
rm -rf evidence; mv build/evidence.keep evidence
